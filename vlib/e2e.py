# Build specs and job plans for the e2e harness (harness/e2e/e2e.cpp), shared by the property modules.
import os
from vlib import core

QUEUES = {
    "ub": dict(q=0, cap=1024, max=65536),        # UnboundedBlocking, grows 1 KiB -> 64 KiB, then blocks
    "ubL": dict(q=0, cap=131072, max=2147483648),  # library default
    "bb": dict(q=1, cap=1024, max=65536),        # BoundedBlocking 1 KiB
    "bbL": dict(q=1, cap=65536, max=65536),      # BoundedBlocking 64 KiB
    "bd": dict(q=2, cap=2048, max=65536),        # BoundedDropping 2 KiB
    "ud": dict(q=3, cap=1024, max=4096),         # UnboundedDropping 1 KiB -> 4 KiB
}


def spec(queue, variant):
    q = QUEUES[queue]
    return dict(name="e2e_" + queue, sources=["e2e/e2e.cpp"], variant=variant, deps=["e2e"],
                extra_flags=["-DE2E_QUEUE=%d" % q["q"], "-DE2E_CAP=%d" % q["cap"], "-DE2E_MAX=%d" % q["max"]])


def specs(variants, queues):
    return [spec(q, v) for q in queues for v in variants]


# family -> list of (queue, variant, mode, quick (procs, scenarios), thorough (procs, scenarios))
PLANS = {
    "deliver": [
        ("ub", "dbg", "S", (2, 250), (6, 1200)), ("ub", "dbg", "F", (2, 120), (6, 500)),
        ("bb", "dbg", "S", (2, 250), (6, 1200)), ("bb", "dbg", "F", (1, 120), (4, 500)),
        ("ubL", "dbg", "F", (1, 80), (3, 300)), ("bbL", "dbg", "F", (1, 80), (3, 300)),
        ("ub", "asan", "S", (1, 120), (3, 500)), ("ub", "asan", "F", (1, 60), (3, 250)), ("bb", "asan", "F", (1, 60), (3, 250)),
        ("ub", "tsan", "F", (2, 50), (5, 200)), ("bb", "tsan", "F", (2, 50), (5, 200)),
        ("ub", "rel", "F", (1, 150), (3, 600)), ("bb", "rel", "F", (1, 150), (3, 600)),
    ],
    "order": [
        ("ub", "dbg", "S", (3, 300), (8, 1500)), ("bb", "dbg", "S", (2, 300), (6, 1500)),
        ("ub", "dbg", "F", (2, 40), (6, 150)), ("bb", "dbg", "F", (1, 40), (4, 150)), ("ubL", "rel", "F", (1, 40), (4, 150)),
        ("ub", "asan", "S", (1, 150), (3, 600)),
    ],
    "flush": [
        ("ub", "dbg", "S", (3, 300), (8, 1500)), ("bb", "dbg", "S", (2, 300), (6, 1500)), ("bd", "dbg", "S", (1, 300), (4, 1500)),
        ("ub", "dbg", "F", (2, 100), (6, 400)), ("bb", "dbg", "F", (1, 100), (4, 400)), ("ubL", "rel", "F", (1, 100), (4, 400)),
        ("bd", "dbg", "F", (1, 100), (3, 400)), ("ud", "dbg", "F", (1, 100), (3, 400)),
        ("ub", "asan", "F", (1, 50), (3, 200)), ("ub", "tsan", "F", (2, 30), (5, 120)), ("bd", "tsan", "F", (1, 30), (3, 120)),
    ],
    "backtrace": [
        ("ub", "dbg", "S", (3, 300), (8, 1500)), ("bb", "dbg", "S", (1, 300), (4, 1500)), ("bd", "dbg", "S", (1, 300), (4, 1500)),
        ("ub", "asan", "S", (2, 150), (4, 600)),
    ],
    "threads": [
        ("ub", "dbg", "S", (3, 40), (8, 160)), ("bb", "dbg", "S", (2, 40), (4, 160)),
        ("ub", "dbg", "F", (2, 12), (5, 50)), ("bbL", "dbg", "F", (1, 12), (3, 50)), ("ubL", "rel", "F", (1, 12), (3, 50)),
        ("ub", "asan", "S", (1, 20), (3, 80)), ("ub", "asan", "F", (1, 8), (3, 30)), ("ub", "tsan", "F", (2, 6), (4, 25)),
    ],
    "faults": [
        ("ub", "dbg", "S", (3, 250), (8, 1200)), ("bb", "dbg", "S", (1, 250), (4, 1200)), ("ub", "asan", "S", (1, 170), (3, 600)),
    ],
    # sink throws inside / at the trigger of a backtrace replay (enumerated per (sink, write call, sink order))
    "btfaults": [
        ("ub", "dbg", "S", (1, 120), (3, 500)), ("bb", "dbg", "S", (1, 60), (2, 300)), ("ub", "asan", "S", (1, 60), (2, 300)),
    ],
    "drop": [
        ("bd", "dbg", "S", (3, 300), (8, 1500)), ("ud", "dbg", "S", (2, 300), (6, 1500)),
        ("bd", "dbg", "F", (2, 60), (5, 250)), ("ud", "dbg", "F", (1, 60), (4, 250)), ("bd", "rel", "F", (1, 60), (3, 250)),
        ("bd", "asan", "S", (1, 150), (3, 600)), ("bd", "tsan", "F", (2, 25), (4, 100)), ("ud", "tsan", "F", (1, 25), (3, 100)),
    ],
    "progress": [
        ("bb", "dbg", "S", (2, 300), (6, 1500)), ("bbL", "dbg", "S", (1, 100), (3, 500)), ("ub", "dbg", "S", (1, 200), (4, 1000)),
        ("bd", "dbg", "S", (1, 300), (4, 1500)), ("ud", "dbg", "S", (1, 300), (3, 1500)),
        ("bb", "dbg", "F", (2, 60), (5, 250)), ("bb", "rel", "F", (1, 60), (3, 250)), ("ub", "dbg", "F", (1, 40), (3, 200)),
    ],
    "levels": [
        ("ub", "dbg", "S", (3, 300), (8, 1500)), ("bb", "dbg", "S", (2, 300), (5, 1500)), ("ub", "asan", "S", (1, 150), (3, 600)),
        ("ub", "dbg", "F", (2, 15), (5, 60)), ("bb", "dbg", "F", (1, 15), (3, 60)), ("ub", "tsan", "F", (2, 6), (4, 25)),
    ],
    "lines": [
        ("ub", "dbg", "S", (2, 300), (6, 1500)), ("ub", "asan", "S", (1, 150), (3, 600)),
    ],
    # the deliver family on unbounded queues also issues shrink requests: judged for C20 (key "family@tag" runs family)
    "deliver@c20": [("ub", "dbg", "S", (2, 250), (6, 1200)), ("ubL", "dbg", "F", (1, 60), (3, 250)), ("ub", "asan", "S", (1, 100), (3, 400))],
    # named and plain backtrace statements share ring slots: pairs of an evicted statement must not stick to its successor (judged for C19)
    "backtrace@c19": [("ub", "dbg", "S", (2, 150), (4, 600))],
    "lifecycle": [
        ("ub", "dbg", "S", (3, 250), (8, 1200)), ("bb", "dbg", "S", (1, 250), (4, 1200)), ("bd", "dbg", "S", (1, 250), (3, 1200)),
        ("ub", "asan", "S", (2, 120), (4, 500)), ("ub", "asan", "F", (2, 40), (5, 160)), ("bb", "asan", "F", (1, 40), (3, 160)),
        ("ub", "tsan", "F", (3, 25), (6, 100)), ("bd", "tsan", "F", (1, 25), (3, 100)), ("ub", "dbg", "F", (1, 60), (3, 250)),
    ],
}


# scenario counts in PLANS are multiplied by this (measured so that a warm quick run of each family takes 30-80 s)
SCALE = {"deliver": 3, "order": 4, "flush": 5, "backtrace": 5, "threads": 2, "faults": 6, "drop": 3, "progress": 4, "levels": 6, "lines": 6, "lifecycle": 6}


def jobs(exes, family, tier, seed, prop, plans=None):
    js = []
    n = 0
    wd = core.workdir()
    for (queue, variant, mode, quick, thorough) in (plans or PLANS)[family]:
        procs, scen = quick if tier == "quick" else thorough
        scen = scen * SCALE.get(family.split("@")[0], 4)
        for p in range(procs):
            n += 1
            d = os.path.join(wd, "%s_%s_%d" % (family, prop, n))
            os.makedirs(d, exist_ok=True)
            js.append(core.Job(exes[("e2e_" + queue, variant)],
                               ["--family", family.split("@")[0], "--mode", mode, "--seed", seed * 10000 + n, "--scenarios", scen, "--dir", d, "--label", prop],
                               variant=variant, timeout=(900 if tier == "quick" else 3600), tag="e2e.%s.%s.%s.%s" % (family, queue, mode, variant), prop=prop, cwd=d))
    return js


def specs_for(families, plans=None):
    seen, out = set(), []
    for f in families:
        for (queue, variant, mode, quick, thorough) in (plans or PLANS)[f]:
            if (queue, variant) not in seen:
                seen.add((queue, variant))
                out.append(spec(queue, variant))
    return out
