# C01 - bounded SPSC queue: exactly once, in order, intact, never early, never overwritten, grants within released space
import time
from vlib import core

PROP = "C01"
SPEC = [dict(name="q_bounded", sources=["q_bounded.cpp"], variant=v) for v in ("dbg", "tsan", "asan")]


def jobs(tier, seed, exes):
    q = tier == "quick"
    js = []
    plan = [("dbg", 6 if q else 16, 16 if q else 48, 20000 if q else 60000),
            ("tsan", 6 if q else 16, 8 if q else 24, 6000 if q else 20000),
            ("asan", 4 if q else 12, 8 if q else 24, 10000 if q else 30000)]
    for variant, procs, configs, records in plan:
        for p in range(procs):
            js.append(core.Job(exes[("q_bounded", variant)],
                               ["--mode", "stream", "--seed", seed * 1000 + p + {"dbg": 0, "tsan": 100, "asan": 200}[variant],
                                "--configs", configs, "--records", records, "--par", 1],
                               variant=variant, timeout=1800, tag="q_bounded.stream." + variant, prop=PROP))
    for p in range(2 if q else 8):
        js.append(core.Job(exes[("q_bounded", "dbg")],
                           ["--mode", "probe", "--seed", seed * 1000 + 500 + p, "--configs", 100 if q else 400, "--records", 2000],
                           variant="dbg", timeout=1800, tag="q_bounded.probe", prop=PROP))
    return js


def run(tier, seed):
    t0 = time.time()
    exes = core.build_many(SPEC)
    col = core.Collector(PROP)
    for j in core.run_jobs(jobs(tier, seed, exes)):
        col.absorb(j, prop_filter={PROP})
    st = col.stats
    cov = {
        "evaluations": int(st.get("configs", 0) + st.get("probe_configs", 0)),
        "distinct_nontrivial": len(col.sets.get("nontrivial", ())),
        "rule": "one evaluation = one (integer type, capacity, publish-batch %, size class, pressure phase, seed) configuration "
                "streamed by a real producer and a real consumer thread (or, probe mode, a single-threaded random history with an exact "
                "space model); non-trivial+distinct = distinct (type,capacity,batch%) triples whose run saw the queue full, saw it empty "
                "AND had records crossing the physical wrap of the double mapping",
        "records_moved": int(st.get("records", 0)),
    }
    return core.finish(PROP, "exploration", tier, seed, t0, col, cov, [
        "executions come from one x86-64 machine: missing release/acquire edges are found through ThreadSanitizer's happens-before analysis "
        "of these executions, not by producing weak-memory outcomes",
        "monitor atomics are relaxed and add no happens-before between producer and consumer",
        "QUILL_X86ARCH (clflush/prefetch path) is not compiled in; it changes no position arithmetic"])


def replay(path):
    return core.replay_job(path)
