# C08 - dropping queue: delivered intact xor reported dropped
from vlib import core, e2e, e2eprop

PROP = "C08"


def spec():
    return e2e.specs_for(["drop"])


def run(tier, seed):
    return e2eprop.run(PROP, ["drop"], tier, seed, ["drop_scenarios"], ["drop_sigs"],
                       "one evaluation = one scenario on BoundedDropping(2 KiB) / UnboundedDropping(1->4 KiB): statements issued through the public "
                       "log_statement<>() so the boolean result is kept; mode S chooses when the backend frees space (never, every k, only after a drop, "
                       "often), sizes include ones that can never fit, flush requests under flood (must be retried, never discarded: idle-cycle verdict), "
                       "threads that dropped exit while others flush; mode F floods with real threads and slow sinks. Offline: delivered set = ids that "
                       "returned true, once, in order, intact; nothing that returned false is delivered; bounded: sum of 'Dropped N log messages from "
                       "thread T' notifier numbers per OS thread = number of false returns of ordinary statements. distinct+non-trivial = scenarios with "
                       ">= 1 drop, by schedule signature",
                       ["an oversize statement on an unbounded dropping queue throws (C02) and counts as not enqueued"])


def replay(path):
    return core.replay_job(path)
