# C15 - time rotation separates statements at the scheduled points (same harness as C14, time-rotation configurations)
from vlib.props import c14

PROP = "C15"
SPEC = c14.SPEC


def run(tier, seed):
    return c14.run_prop(PROP, tier, seed,
                        "one evaluation = one scratch directory with minutely/hourly (interval 1..5) or daily HH:MM rotation, GMT or the process zone, "
                        "optionally combined with a size limit and backup limits, 0..4 restarts; timestamps are dense, exactly on a scheduled point, "
                        "one nanosecond before/after it, late in the following period or separated by gaps of up to 30 periods. Reference schedule "
                        "(independent): first point = next full minute/hour after the start instant or next HH:MM, then + interval. Judged: statements "
                        "with a point in (ts1, ts2] never share a file (while rotation is permitted), statements with no point between them share a "
                        "file (size rotation off), every rotated file is named after its opening moment (both workloads), plus the C14 directory oracle; "
                        "distinct+non-trivial = distinct configuration signatures with >= 2 rotations",
                        ["daily rotation in local time is started in early January so that no DST transition falls into the judged days",
                         "a restart re-anchors the schedule at the new start instant; pairs spanning a restart are not judged for separation"])


def replay(path):
    from vlib import core
    return core.replay_job(path)
