# C19 - named args: text, ordered pairs, one JSON object per line
import json, os, time
from vlib import core

PROP = "C19"
SPEC = [dict(name="named_json", sources=["named_json.cpp"], variant=v) for v in ("dbg", "asan")]
FIELDS = ["timestamp", "file_name", "line", "thread_id", "logger", "log_level", "message"]


def judge_json(d, col, job):
    """The JsonFileSink output parsed with Python's json module against the harness's sidecar expectations."""
    try:
        with open(os.path.join(d, "out.json"), "rb") as fh:
            lines = fh.read().decode("utf-8", "replace").split("\n")
        with open(os.path.join(d, "expect.jsonl")) as fh:
            exp = [json.loads(l) for l in fh if l.strip()]
    except OSError as e:
        col.inconclusive.append({"why": "json files unreadable: %s" % e})
        return 0
    if lines and lines[-1] == "":
        lines.pop()
    checked = 0

    def viol(key, wit):
        col.violations.append({"prop": PROP, "key": key, "witness": wit, "job": job.describe()})

    if len(lines) != len(exp):
        viol("json-lines-differ-from-statements", {"lines": len(lines), "statements": len(exp)})
        return 0
    for n, (ln, e) in enumerate(zip(lines, exp)):
        suffix = ":placeholder-followed-by-escaped-brace" if e.get("defect_class") else ""
        if e.get("needs_escaping"):
            # a value contains a quote or a backslash (e.g. a hex-escaped byte): the line is only promised to parse
            # "whenever the values need no escaping"; it still has to be exactly one line (alignment above)
            continue
        try:
            pairs = json.loads(ln, object_pairs_hook=list)
        except ValueError as err:
            viol("json-line-does-not-parse" + suffix, {"line": ln[:300], "error": str(err), "template": e["message"]})
            if not suffix:
                return checked
            continue
        keys = [k for k, v in pairs]
        if keys[:len(FIELDS)] != FIELDS:
            viol("json-fixed-fields-missing-or-out-of-order", {"keys": keys[:10]})
            return checked
        obj = dict(pairs)
        if obj["message"] != e["message"]:
            viol("json-message-is-not-the-original-template" + suffix, {"got": obj["message"][:200], "want": e["message"][:200]})
            if not suffix:
                return checked
            continue
        got_pairs = [[k, v] for k, v in pairs[len(FIELDS):]]
        if got_pairs != e["pairs"]:
            viol("json-key-value-pairs-differ" + suffix, {"got": got_pairs[:8], "want": e["pairs"][:8], "template": e["message"]})
            if not suffix:
                return checked
            continue
        if obj["logger"] != "jl" or obj["log_level"] != "INFO" or not obj["timestamp"].isdigit() or obj["file_name"] != "named_json.cpp" or not obj["line"].isdigit():
            viol("json-metadata-field-wrong", {"line": ln[:300]})
            return checked
        checked += 1
    return checked


def run(tier, seed):
    t0 = time.time()
    q = tier == "quick"
    exes = core.build_many(SPEC)
    wd = core.workdir()
    js = []
    for n, (variant, procs, rounds) in enumerate([("dbg", 12 if q else 40, 500 if q else 3000), ("asan", 4 if q else 12, 150 if q else 1000)]):
        for p in range(procs):
            d = os.path.join(wd, "nj_%s_%d" % (variant, p))
            os.makedirs(d, exist_ok=True)
            j = core.Job(exes[("named_json", variant)], ["--seed", seed * 1000 + n * 100 + p, "--rounds", rounds, "--dir", d],
                         variant=variant, timeout=1800, tag="named_json." + variant, prop=PROP)
            j.dir = d
            js.append(j)
    # backtrace statements with and without named arguments sharing ring slots (e2e family, run with --label C19)
    from vlib import e2e
    js += e2e.jobs(core.build_many(e2e.specs_for(["backtrace@c19"])), "backtrace@c19", tier, seed, PROP)
    col = core.Collector(PROP)
    json_checked = 0
    for j in core.run_jobs(js):
        col.absorb(j, prop_filter={PROP})
        if j.rc == 0 and j.ended and getattr(j, "dir", None):
            json_checked += judge_json(j.dir, col, j)
    st = col.stats
    cov = {
        "evaluations": int(st.get("named_statements", 0)),
        "distinct_nontrivial": len(col.sets.get("templates", ())) + len(col.sets.get("first_use_orders", ())),
        "rule": "one evaluation = one statement of one catalogue template (41 templates: literal text, {{ }} escapes next to, around and directly after "
                "placeholders, names with and without specs, 1..26 arguments, a template with a newline, LOGJ_ generated templates (1, 2, 5, 13, 17 and 26 variables), a named statement that cannot be formatted followed by ordinary ones, templates whose string values hold control bytes (also single bytes of the internal value separator), DEL, bytes >= 0x80, quotes and backslashes, judged against an independent \\xHH sanitiser; each carries its "
                "positional form, name list and spec list from its own construction) with random values; the first round uses every template once in "
                "an order shuffled per seed (the backend caches the parsed template per format string). Judged in the harness: message = "
                "fmtquill::format(positional, args), one (name, value formatted with its own spec) pair per argument in order; judged by the driver "
                "with Python's json: exactly one line per statement, each parses, fixed fields in order, message = original template (newline -> "
                "space), then the pairs in order. Plus mode-S backtrace scenarios (e2e harness, --label C19) in which named and plain backtrace statements overwrite each other in the ring: a replayed statement carries exactly its own pairs. distinct = templates + first-use orders",
        "json_lines_parsed_and_matched": json_checked,
        "backtrace_scenarios_with_named_and_plain_statements_sharing_ring_slots": int(st.get("backtrace_scenarios", 0)),
    }
    return core.finish(PROP, "exploration", tier, seed, t0, col, cov, [
        "the JSON line is judged only for statements whose values need no JSON escaping (hex-escaped bytes contain a backslash); text and key/value pairs are judged for all", "bundled fmt is the trusted base for formatting one value"])


def replay(path):
    return core.replay_job(path)
