# C17 - removing / re-creating loggers loses nothing and frees nothing in use
from vlib import core, e2e, e2eprop

PROP = "C17"


def spec():
    return e2e.specs_for(["lifecycle"])


def run(tier, seed):
    return e2eprop.run(PROP, ["lifecycle"], tier, seed, ["lifecycle_scenarios"], ["lifecycle_sigs"],
                       "one evaluation = one scenario. Mode S: loggers created under 3 names over 2-5 shared recording sinks, logged through from several "
                       "threads (also injected inside the backend's queue-read / clean-up windows), removed with remove_logger (name retired) or "
                       "remove_logger_blocking (name re-created with other sinks), user sink references dropped at random. Mode F (ASan and TSan are the main "
                       "builds): threads run create-log-remove_blocking-recreate cycles under their own name, CsvWriter create-feed-destroy loops, and "
                       "concurrent create_or_get under one shared name. Offline: per (sink, logger name) the delivered per-thread sequences equal the "
                       "concatenation of all incarnations' issues (nothing lost across removal, nothing on sinks of another incarnation); get_logger == "
                       "nullptr when remove_logger_blocking returns; create_or_get is idempotent; a sink is destroyed exactly once iff no logger and no "
                       "user reference remains; sanitizer/assert silence",
                       ["the documented contract is respected: one remover per logger, nobody logs after the request, re-creation only after the blocking variant returned"])


def replay(path):
    return core.replay_job(path)
