# C09 - a blocked call resumes once there is room; no stall on an empty queue
# queue level: q_bounded probe mode + q_unbounded inject mode quiescent probes; end to end: e2e family "progress"
import time
from vlib import core

PROP = "C09"


def spec():
    s = [dict(name="q_bounded", sources=["q_bounded.cpp"], variant=v) for v in ("dbg", "asan")]
    s += [dict(name="q_unbounded", sources=["q_unbounded.cpp"], variant=v) for v in ("dbg",)]
    from vlib import e2e
    if 'progress' in e2e.PLANS:
        s += e2e.specs_for(['progress'])
    return s


def run(tier, seed):
    t0 = time.time()
    q = tier == "quick"
    exes = core.build_many(spec())
    js = []
    for p in range(4 if q else 12):
        js.append(core.Job(exes[("q_bounded", "dbg")], ["--mode", "probe", "--seed", seed * 1000 + p, "--configs", 150 if q else 500, "--records", 3000],
                           variant="dbg", timeout=1800, tag="q_bounded.probe", prop=PROP))
    js.append(core.Job(exes[("q_bounded", "asan")], ["--mode", "probe", "--seed", seed * 1000 + 90, "--configs", 60 if q else 200, "--records", 2000],
                       variant="asan", timeout=1800, tag="q_bounded.probe.asan", prop=PROP))
    for p in range(3 if q else 10):
        js.append(core.Job(exes[("q_unbounded", "dbg")], ["--mode", "inject", "--seed", seed * 1000 + 300 + p, "--configs", 150 if q else 400, "--records", 5000],
                           variant="dbg", timeout=1800, tag="q_unbounded.inject", prop=PROP))
    from vlib import e2e
    if 'progress' in e2e.PLANS:
        js += e2e.jobs(exes, 'progress', tier, seed, PROP)
    col = core.Collector(PROP)
    for j in core.run_jobs(js):
        col.absorb(j, prop_filter={PROP})
    st = col.stats
    cov = {
        "evaluations": int(st.get("quiescent_states_probed", 0) + st.get("c09_quiescent_probes", 0) + st.get("progress_scenarios", 0)),
        "distinct_nontrivial": len(col.sets.get("probe_triples", ())) + len(col.sets.get("nontrivial", ())) + len(col.sets.get("progress_sigs", ())),
        "rule": "queue level: one evaluation = one quiescent state (random history of writes/reads/commits, then the consumer drains and commits) "
                "in which the top 70 sizes below the capacity plus random sizes are requested and must be granted at once (bounded), or a "
                "request n <= max must be granted after at most one node switch (unbounded, single-threaded inject mode); distinct = "
                "(integer type, capacity, publish-batch %) triples and (initial,max,events) signatures reached; end to end: blocked/dropping "
                "scenarios (see e2e family progress)",
    }
    return core.finish(PROP, "exploration", tier, seed, t0, col, cov, [
        "'eventually' is restated as bounded progress at quiescence: the consumer has drained and committed, then the request must succeed",
        "unbounded queues are probed with power-of-two maxima only"])


def replay(path):
    return core.replay_job(path)
