# C06 - flush_log() returns only after earlier statements are written and flushed
from vlib import core, e2e, e2eprop

PROP = "C06"


def spec():
    return e2e.specs_for(["flush"])


def run(tier, seed):
    return e2eprop.run(PROP, ["flush"], tier, seed, ["flush_calls_checked"], ["flush_sigs"],
                       "one evaluation = one flush_log() call judged immediately after it returned with the backend still running: every statement the "
                       "caller logged earlier has a write event on every sink of its logger and a later flush event on that sink, is readable from the "
                       "real FileSink's file through a fresh descriptor, and (grace period > 0) the same for every statement of any other thread whose "
                       "return ticket precedes the flusher's call ticket, first-time loggers included. Mode S drives 'new thread logs, known thread "
                       "flushes, time passes' inside the backend's cache-refresh/timestamp window; dropping queues kept busy check that the request is "
                       "never discarded; 'returns' is judged in backend idle cycles (1000 all-empty cycles with the flusher still waiting = stuck). "
                       "distinct+non-trivial = mode-S schedule signatures + mode-F (threads, grace, hard limit, flush interval, sinks) tuples with >= 2 flushes",
                       ["cross-thread demand only with a non-zero grace period and System clock, as the property states"])


def replay(path):
    return core.replay_job(path)
