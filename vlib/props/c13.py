# C13 - rendered time = strftime of the instant + exact fraction (TimestampFormatter / StringFromTime, mode D)
import os, time
from vlib import core

PROP = "C13"
SPEC = [dict(name="fmt_direct", sources=["fmt_direct.cpp"], variant=v) for v in ("dbg", "asan")]
QUICK_ZONES = ["UTC", "America/New_York", "Europe/London", "Asia/Kathmandu", "Australia/Lord_Howe", "America/St_Johns",
               "Pacific/Chatham", "America/Sao_Paulo", "Asia/Tehran", "Africa/Casablanca", "Australia/Adelaide", "Pacific/Apia",
               "America/Goose_Bay", "Europe/Dublin", "Antarctica/Troll", "Asia/Kolkata"]


def all_zones():
    zs = []
    tab = "/usr/share/zoneinfo/zone1970.tab"
    if os.path.exists(tab):
        for ln in open(tab):
            if ln.startswith("#"):
                continue
            f = ln.rstrip("\n").split("\t")
            if len(f) >= 3 and os.path.exists("/usr/share/zoneinfo/" + f[2]):
                zs.append(f[2])
    return sorted(set(zs + QUICK_ZONES))


def run(tier, seed):
    t0 = time.time()
    q = tier == "quick"
    exes = core.build_many(SPEC)
    zones = QUICK_ZONES if q else all_zones()
    js = []
    for i, z in enumerate(zones):
        js.append(core.Job(exes[("fmt_direct", "dbg")], ["--mode", "ts", "--seed", seed * 1000 + i, "--cases", 60000 if q else 40000],
                           variant="dbg", env={"TZ": z}, timeout=1800, tag="fmt_direct.ts." + z, prop=PROP))
    for i, z in enumerate(zones[:6] if q else zones[::6]):
        js.append(core.Job(exes[("fmt_direct", "asan")], ["--mode", "ts", "--seed", seed * 1000 + 500 + i, "--cases", 12000],
                           variant="asan", env={"TZ": z}, timeout=1800, tag="fmt_direct.ts.asan." + z, prop=PROP))
    col = core.Collector(PROP)
    for j in core.run_jobs(js):
        col.absorb(j, prop_filter={PROP})
    st = col.stats
    cov = {
        "evaluations": int(st.get("ts_calls", 0)),
        "distinct_nontrivial": len(col.sets.get("nontrivial", ())),
        "rule": "one evaluation = one format_timestamp() call compared with gmtime_r/localtime_r + strftime (+ zero-padded fraction) computed "
                "independently for that call; cases = random patterns over 27 date conversions, 9 tracked and 8 untracked time-of-day "
                "conversions, E/O forms, %s (local mode or UTC zone), %%, literals, a %Qms/%Qus/%Qns at a random position, GMT or local mode, "
                "instant sequences (walks, repeats, backward jumps, walks across second/minute/hour/noon/midnight/quarter-hour and the zone's "
                "own DST transitions found by bisection); distinct+non-trivial = distinct (pattern, mode, boundary kinds crossed) triples",
        "zones": len(zones),
        "patterns": int(st.get("ts_cases", 0)),
        "rejection_cases": int(st.get("ts_rejection_cases", 0)),
    }
    return core.finish(PROP, "exploration", tier, seed, t0, col, cov, [
        "libc strftime/localtime_r with the installed tz database and the C locale are the reference",
        "patterns with a literal %% directly before H M S I k l s are not generated (excluded by the property)"])


def replay(path):
    return core.replay_job(path)
