# C12 - sink line = pattern with attributes substituted; multi-line handling
import time
from vlib import core

PROP = "C12"


def spec():
    s = [dict(name="fmt_direct", sources=["fmt_direct.cpp"], variant=v) for v in ("dbg", "asan")]
    from vlib import e2e
    if 'lines' in e2e.PLANS:
        s += e2e.specs_for(['lines'])
    return s


def run(tier, seed):
    t0 = time.time()
    q = tier == "quick"
    exes = core.build_many(spec())
    js = []
    for i in range(8 if q else 16):
        js.append(core.Job(exes[("fmt_direct", "dbg")], ["--mode", "pat", "--seed", seed * 1000 + i, "--cases", 100000 if q else 500000],
                           variant="dbg", timeout=3600, tag="fmt_direct.pat", prop=PROP))
    for i in range(4 if q else 12):
        js.append(core.Job(exes[("fmt_direct", "asan")], ["--mode", "pat", "--seed", seed * 1000 + 100 + i, "--cases", 20000 if q else 100000],
                           variant="asan", timeout=3600, tag="fmt_direct.pat.asan", prop=PROP))
    from vlib import e2e
    if 'lines' in e2e.PLANS:
        js += e2e.jobs(exes, 'lines', tier, seed, PROP)
    col = core.Collector(PROP)
    for j in core.run_jobs(js):
        col.absorb(j, prop_filter={PROP})
    st = col.stats
    cov = {
        "evaluations": int(st.get("pat_calls", 0) + st.get("pat_invalid_pattern_cases", 0) + st.get("lines_statements", 0)),
        "distinct_nontrivial": len(col.sets.get("nontrivial", ())) + len(col.sets.get("lines_sigs", ())),
        "rule": "direct: one evaluation = one PatternFormatter::format() call (random subset/order of the 16 attributes each once, random "
                "fill/align/width/precision specs, literal text without braces and without '%(', attribute values empty/long/with braces, "
                "percent signs and '%(', run-time MacroMetadata with 0-4 directory levels) compared with an independent substitution of the "
                "pattern, or one invalid pattern (unknown attribute / unterminated %() that must throw; distinct = distinct "
                "(attribute order, specs) signatures; end to end: multi-line messages through real loggers (see e2e family lines)",
    }
    return core.finish(PROP, "exploration", tier, seed, t0, col, cov, [
        "the bundled fmt library is the trusted base for applying one spec to one value",
        "the empty pattern is documented as 'formatting disabled' and is not judged",
        "literal text never contains braces (they would have to be written {{ }}) nor '%('"])


def replay(path):
    return core.replay_job(path)
