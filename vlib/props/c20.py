# C20 - exited threads' queues are drained, then reclaimed; shrinking loses nothing
from vlib import core, e2e, e2eprop

PROP = "C20"


def spec():
    return e2e.specs_for(["threads", "deliver@c20"])


def run(tier, seed):
    return e2eprop.run(PROP, ["threads", "deliver@c20"], tier, seed, ["threads_scenarios", "deliver_scenarios"], ["threads_sigs", "deliver_sigs"],
                       "one evaluation = one scenario of 1-5 rounds; a round creates 1..512 real threads (counts 1,7,64,255,256,257,300,512) that log 0-6 "
                       "statements and exit; mode S: the backend is not polled until all have exited, or polled occasionally / often; mode F: real backend "
                       "kept busy by a slow sink. After a logical drain (backend reported all-empty) the number of contexts seen by "
                       "ThreadContextManager::for_each_thread_context must equal the number of live threads that have logged; all statements delivered once "
                       "in order. Shrink (unbounded queues): burst, shrink_thread_local_queue(c), get_thread_local_queue_capacity() must report the new "
                       "capacity at once, statements before and after delivered in order (mode F bursts, and shrink requests interleaved by the mode-S scheduler "
                       "with logging, thread exits, flush requests and operations injected inside the unbounded queue's switch windows - deliver family). "
                       "distinct = (schedule signature, max exits between two idle periods)",
                       ["contexts are counted through the public ThreadContextManager API after the backend reported idle"])


def replay(path):
    return core.replay_job(path)
