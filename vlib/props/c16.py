# C16 - a statement reaches a sink iff logger level, sink level and sink filters pass
from vlib import core, e2e, e2eprop

PROP = "C16"


def spec():
    return e2e.specs_for(["levels"])


def run(tier, seed):
    return e2eprop.run(PROP, ["levels"], tier, seed, ["levels_scenarios"], ["levels_sigs"],
                       "one evaluation = one mode-S scenario using the library's own LOG_* / LOG_DYNAMIC macros: 1-3 recording sinks with random level "
                       "thresholds, 0-2 scripted filters each (level mask, id hash) and optional override patterns; statements at all nine static levels "
                       "and dynamic ones mixed through transit buffers of capacity 1-2 (slot reuse); logger level changed on the logging thread, sink "
                       "thresholds changed at flush-quiescent points; every argument list contains a call with a side effect. Judged: argument evaluated "
                       "<=> level >= logger level at the call; sink S records it <=> level >= S.level and all filters of S accept, independently per sink; "
                       "recorded level and description = the level given; the line = S's override pattern if any else the logger's",
                       ["mode S: level/filter changes happen at exact points; mode F: changes concurrent with logging are judged by the interval rule (either value current during the call is accepted)"])


def replay(path):
    return core.replay_job(path)
