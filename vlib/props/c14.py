# C14 - size rotation: whole statements, order, size and count bounds, restarts (RotatingFileSink driven directly)
import os, time
from vlib import core

PROP = "C14"
SPEC = [dict(name="rotate", sources=["rotate.cpp"], variant=v) for v in ("dbg", "asan")]
ZONES = ["UTC", "America/New_York", "Asia/Kathmandu", "Australia/Lord_Howe", "Europe/London", "Pacific/Apia"]


def rot_jobs(tier, seed, exes, prop):
    q = tier == "quick"
    js = []
    wd = core.workdir()
    n = 0
    for mode, variant, procs, cases in [("size", "dbg", 8 if q else 16, 500 if q else 3000), ("size", "asan", 2 if q else 8, 250 if q else 1000),
                                        ("time", "dbg", 6 if q else 16, 500 if q else 3000), ("time", "asan", 2 if q else 8, 250 if q else 1000)]:
        for p in range(procs):
            n += 1
            d = os.path.join(wd, "rot%d" % n)
            os.makedirs(d, exist_ok=True)
            js.append(core.Job(exes[("rotate", variant)], ["--mode", mode, "--seed", seed * 1000 + n, "--cases", cases, "--dir", d],
                               variant=variant, env={"TZ": ZONES[n % len(ZONES)]}, timeout=3600, tag="rotate.%s.%s" % (mode, variant), prop=prop))
    return js


def run_prop(prop, tier, seed, rule, assumptions):
    t0 = time.time()
    exes = core.build_many(SPEC)
    col = core.Collector(prop)
    for j in core.run_jobs(rot_jobs(tier, seed, exes, prop)):
        col.absorb(j, prop_filter={prop})
    st = col.stats
    cov = {"evaluations": int(st.get("directories", 0)), "distinct_nontrivial": len(col.sets.get("nontrivial", ())), "rule": rule,
           "statements_written": int(st.get("statements", 0))}
    return core.finish(prop, "exploration", tier, seed, t0, col, cov, assumptions)


def run(tier, seed):
    return run_prop(PROP, tier, seed,
                    "one evaluation = one scratch directory: random configuration (limit 512..8192, backups 0..5/unlimited, overwrite, naming "
                    "Index/Date/DateAndTime, later open mode a/w, remove_old_files), 0..4 process restarts (sink destroyed and re-created), 1..60 "
                    "unique-line statements per instance with sizes aimed at the limit (exact fit, one byte too many, 3x limit) and timestamps that "
                    "repeat, collide within a second or cross days, unrelated files planted; after every restart the directory listing and file "
                    "contents are judged: whole statements, one file each, oldest->newest concatenation in written order, only a prefix missing and "
                    "only when deletion is permitted, size bound unless single statement, rotated files <= backup count and = min(rotations "
                    "observed through FileEventNotifier, backups) from a clean start, planted files untouched; the C15 workload (time rotation) runs "
                    "the same oracle; distinct+non-trivial = distinct configuration signatures with >= 2 rotations",
                    ["statement universe protected from unexplained loss = everything written since the last start in 'w' mode",
                     "timestamps never decrease across restarts", "the sink is destroyed (flushed) before the directory is read"])


def replay(path):
    return core.replay_job(path)
