# C18 - backtrace: held back, then the most recent N, in order, once
from vlib import core, e2e, e2eprop

PROP = "C18"


def spec():
    return e2e.specs_for(["backtrace"])


def run(tier, seed):
    return e2eprop.run(PROP, ["backtrace"], tier, seed, ["backtrace_scenarios"], ["backtrace_sigs"],
                       "one evaluation = one mode-S history over 1-3 loggers (one logging thread each, so the reference is exact): LOG_BACKTRACE statements, "
                       "ordinary statements at six levels, flush_backtrace(), init_backtrace(capacity 1..8, flush level) re-initialisations, with the "
                       "backend polled after every step or lagging behind (drained before anything that changes the flush level). Reference: bounded deque "
                       "per logger; a trigger emits itself, then the deque oldest->newest, then clears it; re-init with another capacity starts afresh. "
                       "The recording sink's sequence must equal the model's exactly; _GLIBCXX_ASSERTIONS/ASan catch out-of-range slot reads. "
                       "distinct+non-trivial = scenarios with >= 2 flushes of a ring that had wrapped",
                       ["re-initialising with an unchanged capacity keeps the stored statements (the interpretation of 'since the previous flush' used here)"])


def replay(path):
    return core.replay_job(path)
