# C07 - stop / exit / handled signal loses nothing (mode X: child processes judged from outside; fault enumeration)
import os, random, resource, shutil, signal, subprocess, time, json
from concurrent.futures import ThreadPoolExecutor
from vlib import core

PROP = "C07"
SPEC = [dict(name="crash_child", sources=["crash_child.cpp"], variant=v) for v in ("rel", "dbg")]
FATAL = [signal.SIGSEGV, signal.SIGABRT, signal.SIGFPE, signal.SIGILL]
GRACEFUL = [signal.SIGINT, signal.SIGTERM]


def configs(tier, seed):
    rnd = random.Random(seed * 7919 + 11)
    cfgs = []
    # ---- enumerated: every K in [0, N] x action for the small program, every K in [1, N] x signal
    N = 6
    for k in range(0, N + 1):
        for action, extra in [("stop", {}), ("exit", {}), ("return", {}), ("cycles", {"cycles": 1}), ("cycles", {"cycles": 3})]:
            for others, ostate in [(0, "finished"), (2, "finished"), (2, "parked")] + ([(2, "alive")] if action in ("stop", "cycles") else []):
                for load in ("idle", "busy"):
                    c = dict(n=N, k=k, action=action, others=others, ostate=ostate, load=load, clock="system", sig=0, cycles=0, victim="main")
                    c.update(extra)
                    cfgs.append(c)
    for k in range(1, N + 1):
        for sig in FATAL + GRACEFUL:
            for victim in ("main", "thread"):
                for others, ostate in [(0, "finished"), (2, "parked")] + ([(2, "alive")] if sig in FATAL else []):
                    for load in ("idle", "busy"):
                        cfgs.append(dict(n=N, k=k, action="signal", others=others, ostate=ostate, load=load, clock="system", sig=int(sig), cycles=0, victim=victim))
    # ---- sampled: larger programs, Tsc clock, more threads, up to 5 cycles
    extra = 1200 if tier == "quick" else 12000
    for _ in range(extra):
        n = rnd.randint(7, 24)
        action = rnd.choice(["stop", "exit", "return", "cycles", "signal", "signal"])
        sig = int(rnd.choice(FATAL + GRACEFUL)) if action == "signal" else 0
        ostates = ["finished", "parked"] + (["alive"] if action in ("stop", "cycles") or sig in [int(s) for s in FATAL] else [])
        cfgs.append(dict(n=n, k=rnd.randint(1 if action == "signal" else 0, n), action=action, others=rnd.randint(0, 4), ostate=rnd.choice(ostates),
                         load=rnd.choice(["idle", "busy"]), clock=rnd.choice(["system", "tsc"]), sig=sig, cycles=rnd.randint(1, 5) if action == "cycles" else 0,
                         victim=rnd.choice(["main", "thread"]) if action != "return" else "main"))
    # the victim's thread context is registered BEFORE the other threads' contexts (they are idle / parked at the action)
    for k in range(0, N + 1):
        for action, extra2 in [("stop", {}), ("exit", {}), ("return", {}), ("cycles", {"cycles": 2})]:
            for others, ostate in [(1, "parked"), (3, "parked"), (2, "finished")] + ([(2, "alive")] if action in ("stop", "cycles") else []):
                for load in ("idle", "busy"):
                    c = dict(n=N, k=k, action=action, others=others, ostate=ostate, load=load, clock="system", sig=0, cycles=0, victim="main", prealloc=1)
                    c.update(extra2)
                    cfgs.append(c)
    # a second thread receives the same fatal signal while the first one's handler is still flushing
    for k in range(1, N + 1):
        for sig in FATAL:
            for ms in (1, 10, 40):
                for load in ("idle", "busy"):
                    cfgs.append(dict(n=N, k=k, action="signal", others=0, ostate="finished", load=load, clock="system", sig=int(sig), cycles=0,
                                     victim="main" if k % 2 else "thread", second_fault_ms=ms))
    for c in cfgs:
        c.setdefault("big", 0)
        c.setdefault("prealloc", 0)
        c.setdefault("second_fault_ms", 0)
    # the last statement before the action is larger than the current queue buffer (fresh buffer, old one drained)
    for k in range(1, N + 1):
        for action, extra2 in [("stop", {}), ("exit", {}), ("return", {}), ("cycles", {"cycles": 2}), ("signal", {"sig": int(signal.SIGSEGV)}), ("signal", {"sig": int(signal.SIGTERM)})]:
            for load in ("idle", "busy"):
                c = dict(n=N, k=k, action=action, others=0, ostate="finished", load=load, clock="system", sig=0, cycles=0, victim="main", big=1)
                c.update(extra2)
                cfgs.append(c)
    # a configured ordering grace period: statements logged right before the action are still held back in their queues
    for k in range(1, N + 1):
        for action, extra2 in [("stop", {}), ("exit", {}), ("return", {}), ("cycles", {"cycles": 2}), ("signal", {"sig": int(signal.SIGSEGV)}), ("signal", {"sig": int(signal.SIGINT)})]:
            for grace in (20000, 150000):
                for others, ostate in [(0, "finished"), (2, "finished")]:
                    c = dict(n=N, k=k, action=action, others=others, ostate=ostate, load="idle", clock=("tsc" if k % 2 else "system"), sig=0, cycles=0, victim="main" if k % 3 else "thread", grace_us=grace)
                    if action == "return":
                        c["victim"] = "main"
                    c.update(extra2)
                    cfgs.append(c)
    # the backend has consumed everything and sits idle (inside the sinks' minimum flush interval) when it is stopped
    for k in range(1, N + 1):
        for action, extra2 in [("stop", {}), ("cycles", {"cycles": 2}), ("exit", {}), ("return", {})]:
            for settle in (5, 30):
                for others, ostate in [(0, "finished"), (1, "parked")]:
                    c = dict(n=N, k=k, action=action, others=others, ostate=ostate, load="idle", clock="system", sig=0, cycles=0, victim="main", settle_ms=settle)
                    c.update(extra2)
                    cfgs.append(c)
    # wait_for_queues_to_empty_before_exit off: the signal clause does not depend on it
    for k in range(1, N + 1):
        for sig in FATAL + GRACEFUL:
            for load in ("idle", "busy"):
                cfgs.append(dict(n=N, k=k, action="signal", others=0, ostate="finished", load=load, clock="system", sig=int(sig), cycles=0,
                                 victim="main" if k % 2 else "thread", wait_empty=0))
    # one more logger, sorted before all others, whose sink throws from every flush_sink(): the victim's file must be
    # flushed all the same (by the final flush of stop / exit, and by the signal handler's flush before the process dies)
    for k in range(1, N + 1):
        for action, extra2 in [("stop", {}), ("exit", {}), ("return", {}), ("cycles", {"cycles": 2})] + [("signal", {"sig": int(s)}) for s in FATAL + GRACEFUL]:
            for load in ("idle", "busy"):
                c = dict(n=N, k=k, action=action, others=0, ostate="finished", load=load, clock="system", sig=0, cycles=0, victim="main" if (k % 2 or action == "return") else "thread", badflush=1)
                c.update(extra2)
                cfgs.append(c)
    # a flush request waits behind a backlog while a late thread logs through its own logger and exits at once
    for k in range(0, N + 1):
        for action, extra2 in [("stop", {}), ("exit", {}), ("return", {}), ("cycles", {"cycles": 2})]:
            for others, ostate in [(0, "finished"), (2, "finished"), (1, "parked")]:
                c = dict(n=N, k=k, action=action, others=others, ostate=ostate, load="busy", clock="system" if k % 2 else "tsc", sig=0, cycles=0, victim="main", flusher=1)
                c.update(extra2)
                cfgs.append(c)
    for c in cfgs:
        c.setdefault("big", 0)
        c.setdefault("prealloc", 0)
        c.setdefault("second_fault_ms", 0)
        c.setdefault("badflush", 0)
        c.setdefault("flusher", 0)
        c.setdefault("grace_us", 0)
        c.setdefault("wait_empty", 1)
        c.setdefault("settle_ms", 0)
    return cfgs


def read_lines(path):
    try:
        with open(path, "rb") as fh:
            return fh.read().decode("utf-8", "replace").splitlines()
    except OSError:
        return None


def read_prog(path):
    out = []
    for ln in read_lines(path) or []:
        p = ln.split()
        if len(p) == 3:
            out.append((int(p[0]), p[1], int(p[2])))
    return out


def judge(c, rc, timed_out, d):
    """returns (violation key or None, witness)"""
    if timed_out:
        return "hang:" + c["action"] + (":sig%d" % c["sig"] if c["sig"] else ""), {}
    vprog = read_prog(os.path.join(d, "prog_victim"))
    act = [t for (t, w, i) in vprog if w == "action"]
    if not act:
        return "child-did-not-reach-action", {"rc": rc}
    g_action = act[0]
    vlines = read_lines(os.path.join(d, "victim.log")) or []
    vs = ["|".join(l.split("|")[:2]) for l in vlines if l.startswith("V|")]
    for l in vlines:
        if l.startswith("V|") and l.count("|") == 2 and l.split("|")[2] != "x" * 200000:
            return "big-statement-corrupt", {"len": len(l)}
    k, n = c["k"], c["n"]
    # ---- exit status
    if c["action"] == "signal" and c["sig"] in [int(s) for s in FATAL]:
        if rc != -c["sig"]:
            return "wrong-termination-after-fatal-signal", {"rc": rc, "expected_signal": c["sig"]}
    else:
        if rc != 0:
            return "nonzero-exit-status", {"rc": rc}
    # ---- victim statements
    want = ["V|%d" % i for i in range(k if c["action"] != "cycles" else n)]
    if vs != want:
        missing = [w for w in want if w not in vs]
        key = "completed-statement-lost" if missing else ("statement-duplicated-or-reordered" if sorted(set(vs)) != sorted(vs) or vs != sorted(vs, key=lambda s: int(s[2:])) else "unexpected-statement")
        return key + ":" + c["action"], {"victim_log": vlines[-12:], "missing": missing[:8], "expected_count": len(want), "got_count": len(vs)}
    if c["action"] == "signal":
        head = ["|".join(l.split("|")[:2]) for l in vlines[:len(vs)]]
        tail = vlines[len(vs):] if head == vs else [l for l in vlines if not l.startswith("V|")]
        if not any("Received signal" in l for l in tail):
            return "signal-notice-missing", {"victim_log": vlines[-6:]}
        if c["sig"] in [int(s) for s in FATAL] and not any("terminated unexpectedly" in l for l in tail):
            return "termination-notice-missing", {"victim_log": vlines[-6:]}
        if vlines and head != vs:
            return "signal-notice-before-earlier-statements", {"victim_log": vlines[-10:]}
    # ---- the moment stop() returned (first stop): the victim's statements so far were already readable from the file
    if c["action"] in ("stop", "cycles"):
        snap = read_lines(os.path.join(d, "victim.at_stop.0"))
        if snap is None:
            return "child-took-no-snapshot-at-stop", {}
        ss = ["|".join(l.split("|")[:2]) for l in snap if l.startswith("V|")]
        want_at_stop = ["V|%d" % i for i in range(k)]
        if ss != want_at_stop:
            return "completed-statement-not-in-file-when-stop-returned:" + c["action"], {"at_stop": ss[-8:], "expected_count": len(want_at_stop), "got_count": len(ss)}
    # ---- backlog on the slow sink (logged by the victim before its own statements)
    if c["load"] == "busy":
        sl = [l for l in (read_lines(os.path.join(d, "slow.log")) or []) if l.startswith("S|")]
        if sl != ["S|%d" % i for i in range(150)]:
            return "completed-statement-lost:backlog:" + c["action"], {"slow_lines": len(sl)}
    # ---- other threads: everything whose return ticket precedes the action ticket (not demanded for signals)
    if c["action"] != "signal":
        for t in range(c["others"] + c["flusher"]):
            prog = read_prog(os.path.join(d, "prog_other%d" % t))
            must = [i for (g, w, i) in prog if w == "ret" and g < g_action]
            ol = [l for l in (read_lines(os.path.join(d, "other%d.log" % t)) or []) if l.startswith("O%d|" % t)]
            got = [int(l.split("|")[1]) for l in ol]
            if got != sorted(set(got)):
                return "statement-duplicated-or-reordered:other-thread", {"thread": t, "got_tail": got[-8:]}
            miss = [i for i in must if i not in got]
            if miss:
                return "completed-statement-of-other-thread-lost:" + c["action"], {"thread": t, "state": c["ostate"], "missing": miss[:8], "demanded": len(must)}
    return None, {}


def run_child(exe, c, d):
    os.makedirs(d, exist_ok=True)
    args = [exe, "--dir", d]
    for k in ("n", "k", "action", "others", "ostate", "load", "clock", "sig", "cycles", "victim", "big", "prealloc", "second_fault_ms", "grace_us", "wait_empty", "settle_ms", "badflush", "flusher"):
        args += ["--" + k, str(c[k])]

    def pre():
        resource.setrlimit(resource.RLIMIT_CORE, (0, 0))

    for attempt in (0, 1):
        t0 = time.time()
        timed_out = False
        try:
            p = subprocess.run(args, stdout=subprocess.DEVNULL, stderr=subprocess.PIPE, timeout=120, preexec_fn=pre)
            rc = p.returncode
        except subprocess.TimeoutExpired:
            timed_out, rc = True, None
        if not timed_out:
            break
        shutil.rmtree(d, ignore_errors=True)
        os.makedirs(d, exist_ok=True)  # a child that outlives the watchdog is re-run once before it is reported
    key, wit = judge(c, rc, timed_out, d)
    reached = os.path.exists(os.path.join(d, "prog_victim"))
    shutil.rmtree(d, ignore_errors=True)
    return key, wit, reached, time.time() - t0


def run(tier, seed):
    t0 = time.time()
    exes = core.build_many(SPEC)
    cfgs = configs(tier, seed)
    wd = core.workdir()
    col = core.Collector(PROP)
    results = []

    def one(ic):
        i, c = ic
        variant = "rel" if i % 2 == 0 else "dbg"
        return (c, variant) + run_child(exes[("crash_child", variant)], c, os.path.join(wd, "c%d" % i))

    with ThreadPoolExecutor(max_workers=core.NCPU) as ex:
        results = list(ex.map(one, enumerate(cfgs)))
    tuples = set()
    statements = 0
    for (c, variant, key, wit, reached, wall) in results:
        b = col.builds.setdefault(variant, {"processes": 0, "sanitizer_or_crash_reports": 0})
        b["processes"] += 1
        if reached:
            tuples.add((c["action"], c["k"], c["sig"], c["clock"], c["load"], c["others"], c["ostate"], c["victim"], c["cycles"], c["n"], c["big"], c["prealloc"], c["second_fault_ms"], c["grace_us"], c["wait_empty"], c["settle_ms"], c["badflush"], c["flusher"]))
            statements += (c["k"] if c["action"] != "cycles" else c["n"]) + (150 if c["load"] == "busy" else 0)
        if key:
            w = dict(wit)
            w["child"] = c
            col.violations.append({"prop": PROP, "key": key, "witness": w,
                                   "job": {"exe": os.path.relpath(exes[("crash_child", variant)], core.VERIF), "args": [], "variant": variant, "env": {}, "tag": "crash_child", "child": c}})
    col.samples = [{"child": results[0][0]}, {"child": results[len(results) // 2][0]}, {"child": results[-1][0]}]
    cov = {
        "evaluations": len(results),
        "distinct_nontrivial": len(tuples),
        "rule": "one evaluation = one child process: program of N statements over FileSinks, action injected at statement boundary k of the victim thread. "
                "ENUMERATED for N=6: every k in [0,6] x {stop without flush, std::exit, return from main, 1 and 3 stop/start cycles} x other threads "
                "{none, finished, parked, alive-and-logging} x backend {idle, busy with a 150-statement backlog on a slow sink}; every k in [1,6] x "
                "{SEGV, ABRT, FPE, ILL, INT, TERM} x victim {main, other thread} x other threads x load. SAMPLED: N up to 24, Tsc clock, up to 4 other "
                "threads, up to 5 cycles. Further enumerations for N=6: victim registered first, second faulting thread, 200 KB last statement, ordering grace period of 20 / 150 ms, "
                "5 / 30 ms settle time before the action (idle backend inside the flush interval), wait_for_queues_to_empty_before_exit off x every signal. For "
                "stop the victim's file is also copied the moment stop() returned and judged (flushed before the backend thread terminates). Parent oracle after waitpid: statements whose log call returned before the action ticket are in their file once "
                "and in order (victim, backlog, other threads), later statements arrive after restarts, signal notices follow the victim's statements, "
                "exit status 0 / death by the original signal. distinct+non-trivial = distinct (action,k,signal,clock,load,threads,state,victim,cycles,N) "
                "tuples whose child reached point k",
        "statements_verified_from_outside": statements,
        "exhaustive": False,
    }
    rc = core.finish(PROP, "fault_enumeration", tier, seed, t0, col, cov, [
        "INT/TERM and exit/return are only combined with other threads that are finished or parked (threads logging while exit() destroys quill's singletons are the application's bug)",
        "for signals only the victim thread's statements are demanded, as the property states",
        "watchdog 120 s per child (normal: 10-100 ms); a child that outlives it is re-run once before it is reported as a hang"])
    return rc


def replay(path):
    with open(path) as fh:
        rp = json.load(fh)
    c = rp["job"]["child"]
    exes = core.build_many(SPEC)
    key, wit, reached, wall = run_child(exes[("crash_child", rp["job"]["variant"])], c, os.path.join(core.workdir(), "replay"))
    print("replayed child %s -> %s %s" % (c, key, json.dumps(wit)[:600]))
    if key == rp["key"]:
        print("VIOLATION property=%s replay=%s" % (PROP, path))
        return 1
    return 0
