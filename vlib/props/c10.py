# C10 - format failures and throwing sinks disturb nothing else (fault enumeration)
from vlib import core, e2e, e2eprop

PROP = "C10"


def spec():
    return e2e.specs_for(["faults", "btfaults"])


def run(tier, seed):
    return e2eprop.run(PROP, ["faults", "btfaults"], tier, seed, ["faults_scenarios"], ["faults_sigs"],
                       "one evaluation = one history in mode S (2 threads, 2 loggers x 3 recording sinks). Scenarios 0..257 of every process ENUMERATE, for a "
                       "history of 12 statements, every (position, fault kind) with kinds {argument missing, spec/type mismatch, user formatter throwing "
                       "std::runtime_error / a non-std type / an int, LOG_BACKTRACE without init_backtrace, harmless user type, the named-placeholder forms of these} and every (sink, call index "
                       "0..13) for a throwing write_log, for a flush_sink that throws once and for one that throws from that call on for good; later scenarios sample 24-statement histories with 1-4 simultaneous "
                       "faults plus a sink fault. Offline: every non-faulty statement on every sink of its logger once and in order; a faulty one absent or "
                       "present with the explanatory text; a sink throw may cost exactly one statement, only on that sink and the sinks after it; >= 1 "
                       "notifier message per fault; flush_log() afterwards returns, every OTHER sink has a completed flush after its last write at that moment, and a probe statement is processed (idle-cycle / no-progress verdicts). "
                       "Family btfaults (mode S, one logger over three sinks in three attachment orders, exact backtrace ring model, capacities 1-5): the throwing "
                       "(sink, write-call index 0..25) is enumerated over every write of a history of stores, ordinary statements, flush_backtrace() and flush-level "
                       "triggers, so the throw lands on a trigger statement, on every position of a replay and on plain statements; sinks before the throwing one must show "
                       "exactly the model's sequence, the throwing one the sequence minus that one statement, the ones after it either. "
                       "distinct = enumerated fault positions + sampled schedule signatures",
                       ["statements are single-line"],
                       level="fault_enumeration")


def replay(path):
    return core.replay_job(path)
