# C11 - steady-state log call neither allocates nor formats on the caller
import time
from vlib import core
from vlib.props import c04

PROP = "C11"


def spec():
    return c04.cspec(["rel", "dbg"])


def run(tier, seed):
    t0 = time.time()
    q = tier == "quick"
    exes = core.build_many(spec())
    js = []
    n = 0
    for k in range(c04.PARTS):
        for variant, reps in [("rel", 300 if q else 2500), ("dbg", 200 if q else 1500)]:
            n += 1
            js.append(core.Job(exes[("codec_rt_p%d" % k, variant)], ["--mode", "alloc", "--seed", seed * 1000 + n, "--reps", reps],
                               variant=variant, timeout=3600, tag="codec_rt.alloc.p%d.%s" % (k, variant), prop=PROP))
    col = core.Collector(PROP)
    for j in core.run_jobs(js):
        col.absorb(j, prop_filter={PROP})
    st = col.stats
    if st.get("interposed", 0) < len(js):
        col.inconclusive.append({"why": "allocation interposition not active in every process"})
    cov = {
        "evaluations": int(st.get("alloc_cases", 0)),
        "distinct_nontrivial": len(col.sets.get("shapes", ())),
        "rule": "one evaluation = one log call with a real backend thread, after preallocate() and a warm-up call, queue flushed before every call: "
                "thread-local counters in the interposed malloc/calloc/realloc/memalign/mmap (operator new goes through malloc) are armed only around the "
                "call and must read 0 for every shape in the property's class (shapes containing a direct-format type, filesystem::path, a deferred type "
                "with an allocating copy constructor, or more than 12 cached string sizes are excluded and only observed); the library's macro families "
                "LOG_/LOGV_/LOGJ_/_TAGS/_LIMIT/_LIMIT_EVERY_N/LOG_DYNAMIC/LOG_BACKTRACE/LOG_RUNTIME_METADATA/named args are checked the same way; user "
                "formatters record gettid(): deferred types never format during the call on the caller and format on the backend thread, direct types "
                "format during the call. distinct = catalogue shapes",
        "calls_checked_for_zero_allocations": int(st.get("alloc_free_class_calls_checked", 0)),
    }
    return core.finish(PROP, "exploration", tier, seed, t0, col, cov, [
        "allocation is observed through symbol interposition in the harness executable (non-sanitizer builds)"])


def replay(path):
    return core.replay_job(path)
