# C04 - asynchronously formatted text = formatting at the call site; deep copy; size accounting (generated catalogue)
import time
from vlib import core

PROP = "C04"
PARTS = 4


def cspec(variants):
    return [dict(name="codec_rt_p%d" % k, sources=["codec_rt.cpp"], variant=v, extra_flags=["-DCODEC_PART=%d" % k, "-DCODEC_PARTS=%d" % PARTS])
            for k in range(PARTS) for v in variants]


def spec():
    return cspec(["dbg", "asan"])


def run(tier, seed):
    t0 = time.time()
    q = tier == "quick"
    exes = core.build_many(spec())
    js = []
    n = 0
    for k in range(PARTS):
        for variant, mode, reps, flags in [("dbg", "fmt", 400 if q else 3000, (0, 0)), ("dbg", "fmt", 300 if q else 2000, (1, 0)), ("dbg", "fmt", 200 if q else 1000, (0, 1)),
                                           ("asan", "fmt", 150 if q else 800, (0, 0)), ("asan", "fmt", 100 if q else 500, (1, 0)),
                                           ("asan", "codec", 300 if q else 2000, (0, 0)), ("dbg", "codec", 500 if q else 3000, (0, 0))]:
            n += 1
            js.append(core.Job(exes[("codec_rt_p%d" % k, variant)],
                               ["--mode", mode, "--seed", seed * 1000 + n, "--reps", reps, "--accept_all", flags[0], "--printable_only", flags[1]],
                               variant=variant, timeout=3600, tag="codec_rt.%s.p%d.%s" % (mode, k, variant), prop=PROP))
    col = core.Collector(PROP)
    for j in core.run_jobs(js):
        col.absorb(j, prop_filter={PROP})
    st = col.stats
    cov = {
        "evaluations": int(st.get("fmt_cases", 0) + st.get("codec_cases", 0)),
        "distinct_nontrivial": len(col.sets.get("shapes", ())),
        "rule": "one evaluation = one statement of one catalogue shape with random values (extremes, NaN/inf, boundary string lengths, embedded NUL and "
                "non-printable bytes, null C strings, unterminated char arrays). fmt mode: expected text = fmtquill::format evaluated BEFORE the call "
                "(null C string = empty, char array up to its first NUL), passed through an independent hex-escaping re-implementation unless an "
                "accept-everything check_printable_char is installed; after the call returns every argument is overwritten, cleared or freed, then the "
                "backend runs; a sentinel statement follows each. codec mode: computed size = bytes written = bytes consumed, canaries around an "
                "exact-size buffer at 16 alignment offsets intact, decoded arguments format identically. distinct = catalogue shapes (90 argument "
                "type lists incl. nested containers and 12-14 variable-length arguments)",
    }
    return core.finish(PROP, "exploration", tier, seed, t0, col, cov, [
        "the bundled fmt library is the trusted base for formatting a value",
        "argument types are a finite catalogue (types and format strings are compile-time in quill), not every program",
        "unordered containers are compared as multisets of characters (their iteration order is not part of their value)"])


def replay(path):
    return core.replay_job(path)
