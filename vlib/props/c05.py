# C05 - global timestamp order when enqueues respect the grace period
from vlib import core, e2e, e2eprop

PROP = "C05"


def spec():
    return e2e.specs_for(["order"])


def run(tier, seed):
    return e2eprop.run(PROP, ["order"], tier, seed, ["order_scenarios"], ["order_sigs"],
                       "one evaluation = one scenario with System-clock loggers. Mode S (decisive): virtual clock (strictly increasing per read, jumps of "
                       "0, grace-1, grace, 3*grace), producers parked between clock read and enqueue (hook FE_TS_TAKEN), backend steps down to single "
                       "queue reads / single events of a batch with operations injected in those windows, first-time loggers inside the cache-refresh "
                       "window, hard limits 1/2/8 so queues are read late. Mode F: real clock, grace 2/20 ms, stalls of grace/4 and 3*grace. Oracle: walk "
                       "each sink's writes in write order; an inversion is legitimate only if the overtaken statement was enqueued later than the grace "
                       "period after its timestamp (upper bound: clock after the call returned - timestamp); the recorded timestamp must lie between the "
                       "clock reads taken before and after the call. distinct+non-trivial = mode-S schedule signatures + mode-F configurations with late "
                       "statements or hard limit <= 8",
                       ["Tsc-clock loggers are not judged here (their timestamps are an estimate)", "backtrace replays are not used in this family (documented exception)"])


def replay(path):
    return core.replay_job(path)
