# C02 - unbounded queue: stream intact across grow/shrink, retired buffers dead, cap respected
import time
from vlib import core

PROP = "C02"
SPEC = [dict(name="q_unbounded", sources=["q_unbounded.cpp"], variant=v) for v in ("dbg", "tsan", "asan")]


def jobs(tier, seed, exes):
    q = tier == "quick"
    js = []
    plan = [("dbg", "stream", 6 if q else 14, 16 if q else 40, 20000 if q else 40000),
            ("tsan", "stream", 6 if q else 14, 12 if q else 32, 10000 if q else 20000),
            ("asan", "stream", 4 if q else 10, 8 if q else 24, 10000 if q else 20000),
            ("dbg", "inject", 2 if q else 8, 150 if q else 400, 5000),
            ("asan", "inject", 1 if q else 6, 60 if q else 150, 3000)]
    for variant, mode, procs, configs, records in plan:
        for p in range(procs):
            js.append(core.Job(exes[("q_unbounded", variant)],
                               ["--mode", mode, "--seed", seed * 1000 + p + {"dbg": 0, "tsan": 100, "asan": 200}[variant] + (50 if mode == "inject" else 0),
                                "--configs", configs, "--records", records, "--par", 1],
                               variant=variant, timeout=1800, tag="q_unbounded.%s.%s" % (mode, variant), prop=PROP))
    return js


def collect(tier, seed, prop_filter):
    exes = core.build_many(SPEC)
    col = core.Collector(PROP)
    for j in core.run_jobs(jobs(tier, seed, exes)):
        col.absorb(j, prop_filter=prop_filter)
    return col


def run(tier, seed):
    t0 = time.time()
    col = collect(tier, seed, {PROP})
    st = col.stats
    cov = {
        "evaluations": int(st.get("stream_configs", 0) + st.get("inject_configs", 0)),
        "distinct_nontrivial": len(col.sets.get("nontrivial", ())),
        "rule": "one evaluation = one (initial capacity, maximum, size class, shrink rate, seed) configuration; stream mode = real producer "
                "and consumer threads with random delays inside the queue's own windows (QUILL_VERIF hooks), inject mode = one thread "
                "playing both roles with the other role's steps injected inside those windows (deterministic); non-trivial+distinct = "
                "distinct (initial,max,events,mode) signatures whose run grew the queue AND (shrank it OR was refused at the cap)",
        "records_moved": int(st.get("records", 0)),
    }
    return core.finish(PROP, "exploration", tier, seed, t0, col, cov, [
        "weak-memory outcomes are not produced on x86-64; missing edges are found through ThreadSanitizer on these executions",
        "mmap/munmap interposition (cap and leak accounting) only in the non-sanitizer build",
        "maximum capacities that are not powers of two are checked for 'never beyond max' only; record sizes in (largest power of two <= max, max] "
        "are not drawn"])


def replay(path):
    return core.replay_job(path)
