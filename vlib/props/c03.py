# C03 - every accepted statement reaches every sink of its logger once, in thread order
from vlib import core, e2e, e2eprop

PROP = "C03"


def spec():
    return e2e.specs_for(["deliver"])


def run(tier, seed):
    return e2eprop.run(PROP, ["deliver"], tier, seed, ["deliver_scenarios"], ["deliver_sigs"],
                       "one evaluation = one scenario: random backend options (transit buffer 1/2/4/128, soft/hard limits 1..32768, grace 0/1us/1ms, "
                       "sleep, flush interval), 1-4 recording sinks shared by 1-5 loggers, message sizes from 0 up to exactly the queue limit; mode F = "
                       "1-10 real threads + real backend with random delays in the backend's windows (hooks) and slow sinks, drained by Backend::stop(); "
                       "mode S = cooperative schedule (policies: uniform, starve the backend, poll after every statement, all threads exit before the "
                       "first poll, bursts) with operations injected inside the backend's windows, threads exiting with statements queued. Offline "
                       "checker over issue log + sink log: exactly once per (logger, sink), per-thread order, payload intact, nothing on unattached sinks. "
                       "distinct+non-trivial = distinct mode-S schedule signatures (hash of the actor/hook sequence) + mode-F configurations that "
                       "re-allocated a queue, blocked or ran with a hard limit <= 8",
                       ["statements are single-line; no filters in this family", "mode S serialises threads (interleaving at operation/hook granularity); true simultaneity comes from mode F + TSan/ASan"])


def replay(path):
    return core.replay_job(path)
