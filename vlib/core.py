# Driver core: build cache, parallel process runner, violation routing, evidence writer.
# stdlib only.
import hashlib, json, os, re, shutil, signal, subprocess, sys, tempfile, time, threading
from concurrent.futures import ThreadPoolExecutor

VERIF = os.path.dirname(os.path.dirname(os.path.abspath(__file__)))
REPO = os.environ.get("VERIF_REPO", "/repo")
CACHE = os.environ.get("VERIF_CACHE", os.path.join(VERIF, ".cache"))
WORK = os.path.join(VERIF, ".work")
OUT = os.environ.get("VERIF_OUT", VERIF)  # evidence/ and replays/ live here (redirected by tools/mut.py)
NCPU = os.cpu_count() or 8

COMMON_FLAGS = ["-std=gnu++17", "-g", "-fno-omit-frame-pointer", "-DQUILL_VERIF", "-pthread",
                "-I" + os.path.join(REPO, "include"), "-I" + os.path.join(VERIF, "harness"),
                "-Wno-deprecated-declarations"]
VARIANTS = {
    "dbg": ["-O1", "-D_GLIBCXX_ASSERTIONS"],
    "asan": ["-O1", "-D_GLIBCXX_ASSERTIONS", "-fsanitize=address,undefined", "-fno-sanitize-recover=all"],
    "tsan": ["-O1", "-fsanitize=thread"],
    "rel": ["-O2", "-DNDEBUG"],
}
VARIANT_ENV = {
    "asan": {"ASAN_OPTIONS": "abort_on_error=1:detect_leaks=1:detect_stack_use_after_return=1:allocator_may_return_null=1",
             "UBSAN_OPTIONS": "print_stacktrace=1:halt_on_error=1",
             "LSAN_OPTIONS": "exitcode=23"},
    "tsan": {"TSAN_OPTIONS": "halt_on_error=1:second_deadlock_stack=1:exitcode=66:report_signal_unsafe=0"},
}


class HarnessFailure(Exception):
    pass


def _tree_hash():
    h = hashlib.sha256()
    inc = os.path.join(REPO, "include")
    for root, dirs, files in os.walk(inc):
        dirs.sort()
        for f in sorted(files):
            p = os.path.join(root, f)
            h.update(os.path.relpath(p, inc).encode())
            with open(p, "rb") as fh:
                h.update(hashlib.sha256(fh.read()).digest())
    return h.hexdigest()


_tree_hash_cache = None


def tree_hash():
    global _tree_hash_cache
    if _tree_hash_cache is None:
        _tree_hash_cache = _tree_hash()
    return _tree_hash_cache


def _src_hash(paths):
    h = hashlib.sha256()
    for p in paths:
        if os.path.isdir(p):
            for root, dirs, files in os.walk(p):
                dirs.sort()
                for f in sorted(files):
                    q = os.path.join(root, f)
                    h.update(q.encode())
                    with open(q, "rb") as fh:
                        h.update(fh.read())
        else:
            h.update(p.encode())
            with open(p, "rb") as fh:
                h.update(fh.read())
    return h.hexdigest()


_build_lock = threading.Lock()
_build_locks = {}


def build(name, sources, variant, extra_flags=(), deps=(), libs=()):
    """Compile harness `name` (sources relative to /verif/harness) in `variant`.
    Rebuilt whenever /repo/include, the sources, harness/common or the flags change."""
    srcs = [os.path.join(VERIF, "harness", s) for s in sources]
    dep_paths = [os.path.join(VERIF, "harness", "common")] + [os.path.join(VERIF, "harness", d) for d in deps]
    flags = COMMON_FLAGS + VARIANTS[variant] + list(extra_flags)
    key = hashlib.sha256((tree_hash() + _src_hash(srcs + dep_paths) + " ".join(flags) + " ".join(libs)).encode()).hexdigest()[:20]
    tag = "%s-%s" % (name, variant)
    outdir = os.path.join(CACHE, tag + "-" + key)
    exe = os.path.join(outdir, name)
    with _build_lock:
        lk = _build_locks.setdefault(tag, threading.Lock())
    with lk:
        if os.path.exists(exe):
            return exe
        os.makedirs(CACHE, exist_ok=True)
        # prune older builds of the same harness/variant
        for d in os.listdir(CACHE):
            if d.startswith(tag + "-") and d != os.path.basename(outdir):
                shutil.rmtree(os.path.join(CACHE, d), ignore_errors=True)
        tmpdir = outdir + ".tmp%d" % os.getpid()
        shutil.rmtree(tmpdir, ignore_errors=True)
        os.makedirs(tmpdir)
        objs = []

        def cc(src):
            obj = os.path.join(tmpdir, os.path.basename(src) + ".o")
            cmd = ["g++"] + flags + ["-c", src, "-o", obj]
            r = subprocess.run(cmd, capture_output=True, text=True)
            if r.returncode != 0:
                raise HarnessFailure("compile failed: %s\n%s" % (" ".join(cmd), r.stderr[-6000:]))
            return obj

        if len(srcs) == 1:
            objs = [cc(srcs[0])]
        else:
            with ThreadPoolExecutor(max_workers=NCPU) as ex:
                objs = list(ex.map(cc, srcs))
        cmd = ["g++"] + flags + objs + ["-o", os.path.join(tmpdir, name)] + list(libs) + ["-ldl"]
        r = subprocess.run(cmd, capture_output=True, text=True)
        if r.returncode != 0:
            raise HarnessFailure("link failed: %s\n%s" % (" ".join(cmd), r.stderr[-6000:]))
        for o in objs:
            os.unlink(o)
        try:
            os.rename(tmpdir, outdir)
        except OSError:
            shutil.rmtree(tmpdir, ignore_errors=True)
        return exe


def build_many(specs):
    """specs: list of dict(name, sources, variant, extra_flags?, deps?, libs?) -> {(name,variant): exe}"""
    out = {}
    with ThreadPoolExecutor(max_workers=NCPU) as ex:
        futs = {(s["name"], s["variant"]): ex.submit(build, s["name"], s["sources"], s["variant"],
                                                      s.get("extra_flags", ()), s.get("deps", ()), s.get("libs", ()))
                for s in specs}
        for k, f in futs.items():
            out[k] = f.result()
    return out


class Job:
    def __init__(self, exe, args, variant="dbg", timeout=600, env=None, tag=None, cwd=None, prop=None):
        self.exe, self.args, self.variant, self.timeout = exe, [str(a) for a in args], variant, timeout
        self.env = env or {}
        self.tag = tag or os.path.basename(exe)
        self.cwd = cwd
        self.prop = prop
        # results
        self.rc = None
        self.lines = []
        self.stderr = ""
        self.timed_out = False
        self.wall = 0.0
        self.ended = False

    def cmdline(self):
        return [self.exe] + self.args

    def describe(self):
        return {"exe": os.path.relpath(self.exe, VERIF), "args": self.args, "variant": self.variant,
                "env": self.env, "tag": self.tag}


def workdir():
    d = os.path.join(WORK, str(os.getpid()))
    os.makedirs(d, exist_ok=True)
    return d


def cleanup_workdir():
    shutil.rmtree(os.path.join(WORK, str(os.getpid())), ignore_errors=True)
    try:
        os.rmdir(WORK)
    except OSError:
        pass


def _run_one(job):
    env = dict(os.environ)
    env.update(VARIANT_ENV.get(job.variant, {}))
    env.update(job.env)
    t0 = time.time()
    wd = job.cwd or workdir()
    try:
        p = subprocess.Popen(job.cmdline(), stdout=subprocess.PIPE, stderr=subprocess.PIPE, env=env, cwd=wd,
                             start_new_session=True)
        try:
            out, err = p.communicate(timeout=job.timeout)
        except subprocess.TimeoutExpired:
            job.timed_out = True
            try:
                os.killpg(p.pid, signal.SIGKILL)
            except OSError:
                pass
            out, err = p.communicate()
        job.rc = p.returncode
        if job.rc == 124:
            job.timed_out = True  # the harness's own scenario watchdog (300 s for one scenario): same handling as our timeout
    except OSError as e:
        raise HarnessFailure("cannot run %s: %s" % (job.exe, e))
    job.wall = time.time() - t0
    job.stderr = err.decode("utf-8", "replace")
    for ln in out.decode("utf-8", "replace").splitlines():
        ln = ln.strip()
        if not ln.startswith("{"):
            continue
        try:
            rec = json.loads(ln)
        except ValueError:
            continue
        if rec.get("k") == "end":
            job.ended = True
        job.lines.append(rec)
    return job


def run_jobs(jobs, parallel=None):
    parallel = parallel or NCPU
    with ThreadPoolExecutor(max_workers=parallel) as ex:
        list(ex.map(_run_one, jobs))
    if os.environ.get("VERIF_VERBOSE"):
        for j in jobs:
            print("job %-28s %-5s wall=%6.1fs rc=%s %s" % (j.tag, j.variant, j.wall, j.rc, " ".join(j.args)))
    # a watchdog firing is re-run once, alone, before it is reported
    for j in jobs:
        if j.timed_out:
            j2 = Job(j.exe, j.args, j.variant, j.timeout, j.env, j.tag, j.cwd, j.prop)
            _run_one(j2)
            j.__dict__.update(j2.__dict__)
            j.rerun = True
    return jobs


_SAN_RE = re.compile(r"(ERROR: AddressSanitizer: [^\n]*|WARNING: ThreadSanitizer: [^\n]*|ERROR: LeakSanitizer: [^\n]*|runtime error: [^\n]*|Assertion [^\n]*failed[^\n]*|Assertion `[^\n]*|terminate called[^\n]*)")
_FRAME_RE = re.compile(r"#\d+ (?:0x[0-9a-f]+ in )?((?:quill|fmtquill)::[^\s(<]+)")


def crash_key(job):
    """Key for a process that died or was reported by a sanitizer: kind + top quill frames (line numbers stripped)."""
    m = _SAN_RE.search(job.stderr)
    kind = "exit%s" % job.rc
    if m:
        txt = m.group(1)
        txt = re.sub(r"0x[0-9a-f]+", "ADDR", txt)
        txt = re.sub(r"\b\d+\b", "N", txt)
        kind = txt[:110]
    frames = []
    for f in _FRAME_RE.findall(job.stderr):
        if f not in frames:
            frames.append(f)
        if len(frames) >= 3:
            break
    return "crash:" + kind + ("|" + ">".join(frames) if frames else "")


class Collector:
    """Aggregates stats / violations / samples emitted by harness processes."""

    def __init__(self, prop):
        self.prop = prop
        self.stats = {}
        self.sets = {}
        self.samples = []
        self.violations = []  # dict(prop,key,witness,job)
        self.inconclusive = []
        self.jobs = 0
        self.builds = {}

    def add_stat(self, k, v):
        if isinstance(v, bool):
            v = int(v)
        if isinstance(v, (int, float)):
            if k.startswith("max_"):
                self.stats[k] = max(self.stats.get(k, v), v)
            elif k.startswith("min_"):
                self.stats[k] = min(self.stats.get(k, v), v)
            else:
                self.stats[k] = self.stats.get(k, 0) + v
        elif isinstance(v, list):
            self.sets.setdefault(k, set()).update(json.dumps(x, sort_keys=True) if not isinstance(x, str) else x for x in v)
        elif isinstance(v, dict):
            for kk, vv in v.items():
                self.add_stat(k + "." + kk, vv)

    def absorb(self, job, prop_filter=None):
        self.jobs += 1
        b = self.builds.setdefault(job.variant, {"processes": 0, "sanitizer_or_crash_reports": 0})
        b["processes"] += 1
        for rec in job.lines:
            k = rec.get("k")
            if k == "stats":
                for kk, vv in rec.items():
                    if kk != "k":
                        self.add_stat(kk, vv)
            elif k == "sample":
                if len(self.samples) < 12:
                    rec = dict(rec)
                    rec.pop("k")
                    self.samples.append(rec)
            elif k == "viol":
                p = rec.get("prop", self.prop)
                if prop_filter and p not in prop_filter:
                    continue
                self.violations.append({"prop": p, "key": rec.get("key", "?"), "witness": rec.get("witness", {}),
                                        "job": job.describe()})
            elif k == "inconclusive":
                self.inconclusive.append({"why": rec.get("why", "?"), "job": job.describe()})
        if job.timed_out:
            # wall-clock watchdog (already re-run once): reported as a hang of this workload
            self.violations.append({"prop": job.prop or self.prop, "key": "hang:" + job.tag,
                                    "witness": {"timeout_s": job.timeout, "stderr_tail": job.stderr[-1500:]},
                                    "job": job.describe()})
        elif job.rc != 0 or not job.ended:
            b["sanitizer_or_crash_reports"] += 1
            self.violations.append({"prop": job.prop or self.prop, "key": crash_key(job),
                                    "witness": {"rc": job.rc, "stderr_tail": job.stderr[-4000:]},
                                    "job": job.describe()})


def load_known_findings():
    p = os.path.join(VERIF, "known_findings.json")
    if not os.path.exists(p):
        return []
    with open(p) as fh:
        return json.load(fh)


_SAFE_BUILTINS = {"len": len, "min": min, "max": max, "abs": abs, "any": any, "all": all, "str": str, "int": int,
                  "set": set, "sorted": sorted, "True": True, "False": False, "None": None}


def match_known(v, findings):
    for f in findings:
        if f.get("status") != "known" or f.get("property") != v["prop"]:
            continue
        m = f.get("match", {})
        if "key_regex" in m and not re.search(m["key_regex"], v["key"]):
            continue
        if "pred" in m:
            try:
                w = v["witness"] if isinstance(v["witness"], dict) else {}
                if not eval(m["pred"], {"__builtins__": _SAFE_BUILTINS, "re": re}, dict(w, w=w, key=v["key"])):
                    continue
            except Exception:
                continue
        return f
    return None


def finish(prop, level, tier, seed, t0, col, coverage, assumptions, min_distinct=2):
    """Route violations through known-findings, write evidence, print verdict lines, return exit code."""
    findings = load_known_findings()
    real, known = [], {}
    for v in col.violations:
        f = match_known(v, findings)
        if f:
            known.setdefault(f["key"], [f, 0])[1] += 1
        else:
            real.append(v)
    # de-duplicate real violations by key, keep first witness per key
    by_key = {}
    for v in real:
        by_key.setdefault((v["prop"], v["key"]), v)
    os.makedirs(os.path.join(OUT, "replays"), exist_ok=True)
    os.makedirs(os.path.join(OUT, "evidence"), exist_ok=True)
    replay_paths = []
    for n, ((p, key), v) in enumerate(sorted(by_key.items())):
        path = os.path.join(OUT, "replays", "%s-%d-%d.json" % (p, seed, n))
        with open(path, "w") as fh:
            json.dump({"property": p, "key": key, "seed": seed, "tier": tier, "witness": v["witness"], "job": v["job"]}, fh, indent=1)
        replay_paths.append((p, key, path))
    cov = dict(coverage)
    cov.setdefault("samples", col.samples[:8] if col.samples else [])
    for k, v in sorted(col.stats.items()):
        cov.setdefault(k, v)
    for k, s in sorted(col.sets.items()):
        cov.setdefault("distinct_" + k, len(s))
    cov["builds"] = col.builds
    cov["known_findings_matched"] = {k: c for k, (f, c) in known.items()}
    cov["inconclusive_runs"] = len(col.inconclusive)
    cov["violation_keys"] = sorted(set(k for (_, k) in by_key))[:20]
    ev = {"property_id": prop, "tier": tier, "seed": seed, "level": level, "coverage": cov,
          "assumptions": assumptions, "wall_s": round(time.time() - t0, 2), "violations": len(by_key)}
    with open(os.path.join(OUT, "evidence", prop + ".json"), "w") as fh:
        json.dump(ev, fh, indent=1, sort_keys=True)
        fh.write("\n")
    for k, (f, c) in sorted(known.items()):
        print("KNOWN-FINDING: property=%s %s (%s; matched %d witnesses)" % (f["property"], f["what"], k, c))
    rc = 0
    for (p, key, path) in replay_paths:
        print("VIOLATION property=%s replay=%s key=%s" % (p, path, key))
        rc = 1
    if rc == 0:
        inconclusive = list(col.inconclusive)
        if cov.get("evaluations", 0) < 1 or cov.get("distinct_nontrivial", 0) < min_distinct:
            inconclusive.append({"why": "coverage below minimum: evaluations=%s distinct_nontrivial=%s (min %d)" %
                                 (cov.get("evaluations"), cov.get("distinct_nontrivial"), min_distinct)})
        if inconclusive:
            for i in inconclusive[:5]:
                print("INCONCLUSIVE property=%s %s" % (prop, i["why"]))
            rc = 2
    print("%s %s tier=%s seed=%d evaluations=%s distinct_nontrivial=%s wall=%.1fs -> %s" % (
        prop, level, tier, seed, cov.get("evaluations"), cov.get("distinct_nontrivial"), time.time() - t0,
        {0: "held on what was observed", 1: "VIOLATED", 2: "inconclusive"}[rc]))
    return rc


def replay_job(path):
    """Re-run exactly the harness process recorded in a replay file and print what it reports."""
    with open(path) as fh:
        rp = json.load(fh)
    j = rp["job"]
    exe = os.path.join(VERIF, j["exe"])
    if not os.path.exists(exe):
        raise HarnessFailure("replay needs %s: run the check once to rebuild it" % exe)
    args = list(j["args"])
    for i, a in enumerate(args[:-1]):
        if a == "--dir":
            # scratch directories of the original run are gone: give the replay a fresh one
            args[i + 1] = os.path.join(workdir(), "replay")
            os.makedirs(args[i + 1], exist_ok=True)
    job = Job(exe, args, j["variant"], 1800, j.get("env"), j.get("tag"), prop=rp["property"])
    _run_one(job)
    col = Collector(rp["property"])
    col.absorb(job)
    hit = [v for v in col.violations if v["key"] == rp["key"]]
    for v in col.violations:
        print("replayed: property=%s key=%s witness=%s" % (v["prop"], v["key"], json.dumps(v["witness"])[:2000]))
    if hit:
        print("VIOLATION property=%s replay=%s" % (rp["property"], path))
        return 1
    print("replay did not reproduce key %s (%d other violations)" % (rp["key"], len(col.violations)))
    return 0
