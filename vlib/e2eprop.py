# Generic runner for properties decided by e2e families.
import time
from vlib import core, e2e


def run(prop, families, tier, seed, eval_keys, sig_keys, rule, assumptions, level="exploration", extra_jobs=None, plans=None, filter_props=None):
    t0 = time.time()
    exes = core.build_many(e2e.specs_for(families, plans) + (extra_jobs[0] if extra_jobs else []))
    js = []
    for f in families:
        js += e2e.jobs(exes, f, tier, seed, prop, plans)
    if extra_jobs:
        js += extra_jobs[1](exes, tier, seed)
    col = core.Collector(prop)
    for j in core.run_jobs(js):
        col.absorb(j, prop_filter=filter_props or {prop})
    st = col.stats
    cov = {
        "evaluations": int(sum(st.get(k, 0) for k in eval_keys)),
        "distinct_nontrivial": sum(len(col.sets.get(k, ())) for k in sig_keys),
        "rule": rule,
    }
    return core.finish(prop, level, tier, seed, t0, col, cov, assumptions)
