# bin/check setup: pre-build every harness variant for the current /repo tree (parallel), so that quick checks start warm.
import importlib, json, os, time
from vlib import core


def run():
    t0 = time.time()
    specs, seen = [], set()
    with open(os.path.join(core.VERIF, "MANIFEST.json")) as fh:
        m = json.load(fh)
    for c in m["checks"]:
        mod = importlib.import_module("vlib.props." + c["property_id"].lower())
        sp = mod.spec() if hasattr(mod, "spec") else getattr(mod, "SPEC", [])
        for s in sp:
            k = (s["name"], s["variant"], tuple(s.get("extra_flags", ())))
            if k not in seen:
                seen.add(k)
                specs.append(s)
    core.build_many(specs)
    print("setup: %d harness builds ready in %.1fs" % (len(specs), time.time() - t0))
    return 0
