#!/usr/bin/python3
# Mutation helper (development aid, not a registered check):
#   tools/mut.py <prop> <file relative to include/quill> <old> <new> [--tier quick] [--count N]
#   tools/mut.py <prop> --patch file.diff
# Copies /repo/include to a scratch directory outside /repo and /verif, applies the change there, runs
# bin/check <prop> against it (VERIF_REPO) with its own build cache, prints the outcome and removes the copy.
import os, shutil, subprocess, sys, tempfile
args = sys.argv[1:]
prop = args[0]
tier = "quick"
if "--tier" in args:
    i = args.index("--tier"); tier = args[i + 1]; del args[i:i + 2]
scratch = tempfile.mkdtemp(prefix="vmut_", dir="/tmp")
try:
    if args[1] == "--patch":
        subprocess.check_call(["git", "-C", "/repo", "worktree", "add", "--detach", "-q", scratch + "/wt"], stdout=subprocess.DEVNULL)
        root = scratch + "/wt"
        subprocess.check_call(["git", "-C", root, "apply", os.path.abspath(args[2])])
    else:
        root = scratch + "/r"
        shutil.copytree("/repo/include", root + "/include")
        f = os.path.join(root, "include/quill", args[1])
        s = open(f).read()
        if s.count(args[2]) < 1:
            print("MUT: pattern not found"); sys.exit(3)
        cnt = 1
        s2 = s.replace(args[2], args[3], cnt)
        open(f, "w").write(s2)
    env = dict(os.environ, VERIF_REPO=root, VERIF_CACHE=scratch + "/cache", VERIF_OUT=scratch + "/out")
    r = subprocess.run(["/verif/bin/check", prop, "--tier", tier], env=env, capture_output=True, text=True)
    out = [l for l in r.stdout.splitlines() if l.startswith(("VIOLATION", "KNOWN", "INCONCLUSIVE", "HARNESS", prop))]
    print("MUT rc=%d\n  %s" % (r.returncode, "\n  ".join(out[:8])))
    if r.returncode == 2:
        print(r.stdout[-3000:], r.stderr[-2000:])
finally:
    if os.path.isdir(scratch + "/wt"):
        subprocess.call(["git", "-C", "/repo", "worktree", "remove", "--force", scratch + "/wt"])
    shutil.rmtree(scratch, ignore_errors=True)
