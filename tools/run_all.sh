#!/bin/bash
# development aid: run every registered check once (tier $1, seed $2) and print one line per check
tier=${1:-quick}; seed=${2:-1}
cd "$(dirname "$0")/.."
for p in $(python3 -c "import json; print(' '.join(c['property_id'] for c in json.load(open('MANIFEST.json'))['checks']))"); do
  s=$(date +%s)
  out=$(VERIF_SEED=$seed VERIF_OUT=${VERIF_OUT:-$PWD} bin/check $p --tier $tier 2>&1); rc=$?
  e=$(date +%s)
  echo "$p rc=$rc $((e-s))s $(echo "$out" | grep -E 'VIOLATION|INCONCLUSIVE|HARNESS' | head -3 | cut -c1-160 | tr '\n' ' ')"
done
