#!/usr/bin/python3
# Development aid for the seeded-change campaign (not a registered check).
#   tools/seed_eval.py <candidate dir with patch.diff [+ demo.cpp]> <prop> [<prop> ...] [--tests] [--tier quick]
# 1. scratch worktree of /repo HEAD under /tmp, patch applied there (never in /repo)
# 2. demo.cpp compiled and run without and with the patch (expected: pass / fail)
# 3. the named checks run against the patched tree (VERIF_REPO / VERIF_CACHE / VERIF_OUT point into the scratch dir)
# 4. --tests: the library's full test suite is built and run on the patched tree (guard off), as the brief requires
# Prints a JSON summary and removes the worktree with its build output.
import json, os, shutil, subprocess, sys, tempfile, time

args = sys.argv[1:]
run_tests = "--tests" in args
if run_tests:
    args.remove("--tests")
tier = "quick"
if "--tier" in args:
    i = args.index("--tier")
    tier = args[i + 1]
    del args[i:i + 2]
cand = os.path.abspath(args[0])
props = args[1:]
scratch = tempfile.mkdtemp(prefix="vseed_", dir="/tmp")
wt = os.path.join(scratch, "wt")
summary = {"candidate": cand, "props": props}
try:
    subprocess.check_call(["git", "-C", "/repo", "worktree", "add", "--detach", "-q", wt, "HEAD"])
    demo = os.path.join(cand, "demo.cpp")

    def build_run_demo(tag):
        if not os.path.exists(demo):
            return None
        exe = os.path.join(scratch, "demo_" + tag)
        extra = []
        head = open(demo).read(3000)
        if "fsanitize=thread" in head or "TSAN" in head.upper() and "sanitize" in head:
            extra = ["-fsanitize=thread"]
        elif "fsanitize=address" in head:
            extra = ["-fsanitize=address"]
        flags_file = os.path.join(cand, "FLAGS")
        if os.path.exists(flags_file):
            extra = open(flags_file).read().split()
        c = subprocess.run(["g++", "-std=gnu++17", "-O1", "-g", "-pthread", "-I" + wt + "/include", demo, "-o", exe] + extra, capture_output=True, text=True)
        if c.returncode != 0:
            return {"compile_failed": c.stderr[-800:]}
        res = []
        for _ in range(3):
            try:
                r = subprocess.run([exe], capture_output=True, text=True, timeout=300, cwd=scratch)
                res.append(r.returncode)
            except subprocess.TimeoutExpired:
                res.append("timeout")
        return {"rcs": res}

    summary["demo_without_patch"] = build_run_demo("clean")
    ap = subprocess.run(["git", "-C", wt, "apply", os.path.join(cand, "patch.diff")], capture_output=True, text=True)
    if ap.returncode != 0:
        summary["apply_failed"] = ap.stderr[-500:]
        print(json.dumps(summary, indent=1))
        sys.exit(3)
    summary["demo_with_patch"] = build_run_demo("patched")
    env = dict(os.environ, VERIF_REPO=wt, VERIF_CACHE=os.path.join(scratch, "cache"), VERIF_OUT=os.path.join(scratch, "out"))
    summary["checks"] = {}
    for p in props:
        t0 = time.time()
        r = subprocess.run(["/verif/bin/check", p, "--tier", tier], env=env, capture_output=True, text=True)
        lines = [l for l in r.stdout.splitlines() if l.startswith(("VIOLATION", "KNOWN", "INCONCLUSIVE", "HARNESS"))]
        summary["checks"][p] = {"rc": r.returncode, "wall_s": round(time.time() - t0), "lines": [l[:300] for l in lines[:6]]}
    if run_tests:
        b = os.path.join(scratch, "b")
        t0 = time.time()
        c = subprocess.run(["cmake", "-S", wt, "-B", b, "-G", "Ninja", "-DCMAKE_BUILD_TYPE=RelWithDebInfo", "-DQUILL_BUILD_TESTS=ON", "-DQUILL_ENABLE_EXTENSIVE_TESTS=ON",
                            "-DCMAKE_CXX_FLAGS=-Wno-error"] + [x for x in os.environ.get("SEED_CMAKE_EXTRA", "").split("|") if x], capture_output=True, text=True)
        bl = subprocess.run(["cmake", "--build", b, "-j", os.environ.get("SEED_JOBS", "8")], capture_output=True, text=True)
        if bl.returncode != 0:
            summary["tests"] = {"build_failed": bl.stdout[-1500:]}
        else:
            ct = subprocess.run(["ctest", "--test-dir", b, "-j", os.environ.get("SEED_JOBS", "8"), "--timeout", "900", "-E", "unbounded_unlimited_queue"], capture_output=True, text=True)
            tail = [l for l in ct.stdout.splitlines() if "tests passed" in l or "Failed" in l or "***" in l]
            summary["tests"] = {"rc": ct.returncode, "summary": tail[-12:], "wall_s": round(time.time() - t0)}
finally:
    subprocess.call(["git", "-C", "/repo", "worktree", "remove", "--force", wt], stdout=subprocess.DEVNULL, stderr=subprocess.DEVNULL)
    shutil.rmtree(scratch, ignore_errors=True)
print(json.dumps(summary, indent=1))
