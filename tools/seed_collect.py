#!/usr/bin/python3
# Assembles /verif/seeded/<id>/ (patch.diff, demo.cpp, README.txt, meta.json) from the sub-agents' deliverables under
# /tmp/seed_out/<P>/<x>/, the full-suite confirmation (tests.json written by tools/seed_eval.py --tests) and the table
# below (what each change needs in order to manifest, which check catches it and with which key, and whether the
# check had to be strengthened first). Only confirmed changes are kept.
import json, os, shutil, sys

V = os.path.dirname(os.path.dirname(os.path.abspath(__file__)))
SRC = "/tmp/seed_out"

# id -> (property, source dir, needs, caught_by [(check, key)], strengthened note or None)
TABLE = {
    "C01-a": ("C01", "C01/a", "slow path of prepare_write after the consumer published a new reader position while the record still does not fit (non-uniform record sizes)",
              [("C01", "grant-exceeds-released-space"), ("C01", "ThreadSanitizer data race on the payload")], None),
    "C01-b": ("C01", "C01/b", "producer commits between the consumer's acquire load in empty() and its commit_read(); only a missing happens-before edge (x86 never shows stale bytes)",
              [("C01", "ThreadSanitizer data race (tsan build of the stream workload)")], None),
    "C02-a": ("C02", "C02/a", "producer commits a record to the old node and publishes next between the consumer's empty read and its load of next",
              [("C02", "stream-gap-or-torn")], None),
    "C02-b": ("C02", "C02/b", "drained queue, then a record larger than the current buffer (or a shrink) so that only the next node holds data, then stop / thread exit before the next read pass",
              [("C02", "empty-reports-true-with-committed-records-pending"), ("C07", "completed-statement-lost:stop/exit"), ("C03", "statement-lost"), ("C20", "statement-lost")],
              "missed by C02 and C07 at first: C02 only called empty() at the very end, C07's programs never outgrew the queue. Added: exact empty()-vs-committed oracle in C02's single-threaded inject mode; C07 configurations whose last statement before the action is 200 KB (fresh node, old one drained)"),
    "C03-a": ("C03", "C03/a", "a thread logs and exits while another thread's older flush request is pending: the flush-driven context reclaim runs with the exited thread's statements decoded but unwritten",
              [("C03", "statement-lost")],
              "missed at first: the deliver family had thread exits but no flush requests. Added flush_log() operations to deliver_S and deliver_F"),
    "C03-b": ("C03", "C03/b", "statement larger than the current queue buffer from a thread that exits at once, landing between the queue reads and the emptiness check of an idle pass",
              [("C03", "statement-lost")], None),
    "C05-a": ("C05", "C05/a", "a statement enqueued between the visits of two queues in one pass while the pass is slowed by >= the grace period, single-event mode",
              [("C05", "timestamp-order-violated")], None),
    "C05-b": ("C05", "C05/b", ">= 3 threads, an idle thread registered before a busy one, backlog above the hard limit, batch or exit path",
              [("C05", "timestamp-order-violated")], None),
    "C06-a": ("C06", "C06/a", ">= 2 sinks, one whose flush_sink() throws ordered before the others",
              [("C06", "sink-not-flushed-after-write-when-flush-returned"), ("C06", "statement-not-readable-from-file-when-flush-returned")],
              "missed at first: no sink ever threw from flush_sink() in the flush family. Added a scripted one-shot flush throw on a random sink (file logger renamed so that its sink is flushed last)"),
    "C06-b": ("C06", "C06/b", "backend reads W's queue (empty), W logs X, F calls flush_log(), backend reads F's queue in the same pass",
              [("C06", "earlier-statement-of-other-thread-not-written-when-flush-returned")], None),
    "C07-a": ("C07", "C07/a", ">= 2 thread contexts, backlog at stop/exit, the last registered context empty while an earlier one has pending statements",
              [("C07", "completed-statement-lost:backlog:stop/exit"), ("C03", "statement-lost")],
              "missed by C07 at first: the victim was always the last thread to register. Added configurations in which the victim registers first (Frontend::preallocate) and other threads are parked / alive"),
    "C07-b": ("C07", "C07/b", "a second thread receives the same fatal signal while the first thread's handler is still flushing (busy backend)",
              [("C07", "completed-statement-lost:signal")],
              "missed at first: only one thread ever received a signal. Added a second faulting thread 1/10/40 ms after the victim"),
    "C08-a": ("C08", "C08/a", "a frontend drop (fetch_add) landing between the backend's load and its store(0) of the drop counter, i.e. dropping on another CPU while the idle backend reports",
              [("C08", "dropped-statements-not-reported")], None),
    "C08-b": ("C08", "C08/b", "full dropping queue, backend not draining, then init_backtrace / flush_backtrace / remove_logger_blocking (retried requests bump the drop counter)",
              [("C08", "more-drops-reported-than-happened")],
              "missed at first: only flush_log() was issued under flood. Added backtrace init/flush and blocking logger removal as control requests under flood (modes S and F)"),
    "C10-a": ("C10", "C10/a", "a statement with named args whose sink write throws (or backtrace without init), then a plain statement reusing the same backend buffer slot",
              [("C10", "plain-statement-carries-named-args-of-another-statement")],
              "missed at first: no named-argument statements in the fault histories and named args were not compared. Added named statements (every third) and a named-args oracle"),
    "C10-b": ("C10", "C10/b", "named placeholder whose user formatter throws a type not derived from std::exception",
              [("C10", "backend-makes-no-progress")],
              "missed at first: throwing formatters were only used through positional placeholders. Added named-placeholder bombs (std / non-std / int) to the enumerated fault kinds"),
    "C14-a": ("C14", "C14/a", "append-mode restart before any rotation (nothing recovered), then small statements that fit alone but not together with the old content",
              [("C14", "file-exceeds-size-limit")], None),
    "C14-b": ("C14", "C14/b", "append-mode restart over a directory that already holds a backup, log path outside the cwd, one rotation after the restart",
              [("C14", "statements-lost-without-permitted-deletion / non-oldest-statements-deleted (Index naming)")], None),
    "C17-a": ("C17", "C17/a", "LOG + remove_logger landing between the idle pass's emptiness check and the registry walk",
              [("C17", "AddressSanitizer heap-use-after-free in _populate_transit_event_from_frontend_queue"), ("C17", "assert count_digits")], None),
    "C17-b": ("C17", "C17/b", "something is enqueued between the idle pass's emptiness check and the per-logger re-check while a logger is invalid: the postponed removal is never retried",
              [("C17", "remove-logger-blocking-never-returns-with-idle-backend")],
              "first detected only through the 900 s wall-clock watchdog (hang of remove_logger_blocking in mode F). Added a logical verdict: > 1000 wait-loop iterations while the backend reported all-empty > 1000 times (hook FE_REMOVE_WAIT; same for FE_FLUSH_WAIT), and stuck operations in mode S are now attributed to the property they belong to"),
}
TABLE2 = os.path.join(V, "seeded", "table2.json")  # later rounds are appended there by hand (same shape)


def main():
    table = dict(TABLE)
    if os.path.exists(TABLE2):
        for k, v in json.load(open(TABLE2)).items():
            table[k] = tuple(v)
    kept = 0
    for sid, (prop, sub, needs, caught, strengthened) in sorted(table.items()):
        src = os.path.join(SRC, sub)
        dst = os.path.join(V, "seeded", sid)
        tests = None
        tj = os.path.join(src, "tests.json")
        if os.path.exists(tj):
            try:
                tests = json.load(open(tj)).get("tests")
            except ValueError:
                tests = None
        if not os.path.exists(os.path.join(src, "patch.diff")):
            if os.path.isdir(dst):
                kept += 1
            continue
        if tests is None or tests.get("rc") != 0:
            print("not keeping %s yet: full suite result %s" % (sid, tests))
            continue
        os.makedirs(dst, exist_ok=True)
        for f in ("patch.diff", "demo.cpp", "README.txt"):
            if os.path.exists(os.path.join(src, f)):
                shutil.copy(os.path.join(src, f), os.path.join(dst, f))
        meta = {
            "id": sid,
            "property": prop,
            "origin": "independent sub-agent given only the property text and a scratch worktree of /repo",
            "needs_to_manifest": needs,
            "confirmed_by_me": {
                "applies_and_compiles": True,
                "demo": "demo.cpp built with g++ -std=gnu++17 -O1 -g -pthread against a scratch worktree: exit 0 without the patch (3/3), non-zero with it (3/3)",
                "existing_test_suite_with_patch": "full pinned suite (ctest, 182 stable tests, guard off) on a scratch worktree with the patch: %s" % " ".join(tests.get("summary", [])[-2:]),
                "how_checks_were_run": "tools/seed_eval.py: patch applied in a scratch worktree of /repo HEAD (never in /repo), bin/check <prop> --tier quick with VERIF_REPO pointing at it",
            },
            "caught_by": [{"check": c, "violation_key": k} for c, k in caught],
            "check_strengthened": strengthened,
        }
        with open(os.path.join(dst, "meta.json"), "w") as fh:
            json.dump(meta, fh, indent=1)
            fh.write("\n")
        kept += 1
    print("seeded changes kept:", kept)
    if "--md" in sys.argv:
        # regenerate the table in DESIGN.md (between the two markers) from what is actually kept under seeded/
        rows = ["| id | what the change needs in order to manifest | caught by (check: violation key) | check strengthened first? |", "|----|----|----|----|"]
        for sid in sorted(table):
            mp = os.path.join(V, "seeded", sid, "meta.json")
            if not os.path.exists(mp):
                continue
            m = json.load(open(mp))
            caught = "; ".join("%s: `%s`" % (c["check"], c["violation_key"]) for c in m["caught_by"])
            rows.append("| %s | %s | %s | %s |" % (sid, m["needs_to_manifest"].replace("|", "\\|"), caught.replace("|", "\\|"), (m["check_strengthened"] or "no").replace("|", "\\|")))
        dp = os.path.join(V, "DESIGN.md")
        d = open(dp).read()
        b, e = "<!-- seeded-table-begin -->", "<!-- seeded-table-end -->"
        if b in d and e in d:
            d = d[:d.index(b) + len(b)] + "\n" + "\n".join(rows) + "\n" + d[d.index(e):]
            open(dp, "w").write(d)
            print("DESIGN.md table rewritten:", len(rows) - 2, "rows")


if __name__ == "__main__":
    main()
