#!/usr/bin/python3
# Regenerates /verif/MANIFEST.json from the table below (kept in one place so the manifest stays valid).
import json, os, subprocess

V = os.path.dirname(os.path.dirname(os.path.abspath(__file__)))

CHECKS = {
    "C01": dict(cat="exploration", ref="6/C01", tech="runtime monitoring: online stream/grant oracles on real producer+consumer threads; ThreadSanitizer, ASan+UBSan builds",
                text="Real BoundedSPSCQueueImpl<uint16/uint32/size_t> driven by a producer and a consumer thread with random delays between API calls over "
                     "hundreds of (type, capacity, publish-batch) configurations; every record carries seq/len/pattern so loss, duplication, reordering, tearing, "
                     "early visibility, overwrite of unreleased bytes, non-contiguous or over-capacity grants are detected online; missing release/acquire edges "
                     "are detected by ThreadSanitizer on the same workload. Exploration, not proof: held on the executions produced.",
                note="x86-64 only: weak-memory outcomes are judged through TSan's happens-before analysis of produced executions; monitor atomics are relaxed"),
    "C02": dict(cat="exploration", ref="6/C02", tech="runtime monitoring: stream oracle + switch-sequence model + interposed mmap accounting; hook-window delay and deterministic step injection; TSan, ASan",
                text="Real UnboundedSPSCQueue under grow/shrink/cap workloads: two-thread stream mode with delays injected in the queue's own windows and a "
                     "single-threaded inject mode that runs the other role's steps inside those windows (the 'old node empty -> commit+publish next -> follow next' "
                     "order happens thousands of times per run). Oracles: sequence/payload, producer-vs-consumer switch sequence, capacity <= max, oversize "
                     "throws, refusal without mapping, mapping sizes and leak accounting through interposed mmap/munmap; ASan/TSan for retired nodes.",
                note="record sizes in (largest power of two <= max, max] are not drawn for non-power-of-two maxima"),
    "C09": dict(cat="exploration", ref="6/C09", tech="runtime monitoring: bounded-progress probes at exact quiescent states (queue level) and idle-cycle progress verdicts end to end",
                text="'Eventually' restated as bounded progress at quiescence. Queue level: after random histories the consumer drains and commits, then every "
                     "request up to the capacity (top 70 sizes + random) must be granted at once; unbounded: n <= max granted after at most one switch. End to end "
                     "(e2e family progress): near-capacity statements through blocking queues must return (mode S: 1000 backend idle cycles with the producer still "
                     "retrying = stuck; mode F: >=100 retries while the backend reported all-empty >=100 times), dropping queues must accept a fitting statement on an "
                     "empty queue. The unchanged tree failed this (reader position published in batches); repaired by a fix: commit, check stays armed.",
                note="liveness is judged in logical steps (quiescent probes / backend idle cycles), never in seconds"),
    "C12": dict(cat="exploration", ref="6/C12", tech="runtime monitoring: per-call differential of PatternFormatter::format against an independent pattern substitution (dbg + ASan/UBSan)",
                text="Real PatternFormatter driven directly with generated valid patterns (random subset/order of the 16 attributes, fill/align/width/precision specs, "
                     "literal text, hostile attribute values, run-time MacroMetadata) and compared per call with an independent reference substitution; invalid "
                     "patterns must throw at construction. End to end (e2e family lines, mode S): every arrangement of newlines with add_metadata_to_multi_line_logs on/off, "
                     "plus runtime-supplied source metadata (LOG_RUNTIME_METADATA), tags and named args rendered through a real logger's pattern.",
                note="bundled fmt is the trusted base for applying one spec to one value; empty pattern = documented 'formatting disabled', not judged"),
    "C13": dict(cat="exploration", ref="6/C13", tech="runtime monitoring: per-call differential of TimestampFormatter against libc strftime over generated patterns, zones and instant sequences (dbg + ASan/UBSan)",
                text="Real TimestampFormatter/StringFromTime vs gmtime_r/localtime_r + strftime per call: ~10^7 calls per quick run over random patterns, 16 zones (all "
                     "tz database zones in the thorough tier), GMT and local mode, walks/repeats/backward jumps and walks across second, minute, hour, noon, "
                     "midnight, quarter-hour and the zone's own DST transitions. Found and repaired three defects (stale %c/%E/%O fields, repeated %Q specifier, "
                     "off-grid DST changes); one recorded finding (literal %% before r R T X Q).",
                note="libc + installed tz database + C locale are the reference"),
    "C14": dict(cat="exploration", ref="6/C14", tech="runtime monitoring: offline directory/file-content oracle over RotatingFileSink runs with restarts (dbg + ASan/UBSan)",
                text="Real RotatingFileSink driven in scratch directories over random configurations, statement sizes aimed at the limit, colliding timestamps and "
                     "0-4 process restarts; after every restart an oracle reads the directory: whole statements, one file each, order across files by the naming "
                     "scheme, only permitted deletions (a prefix), size bound, backup count (=min(rotations observed, backups) from a clean start), planted files "
                     "untouched. Two recorded findings (append-mode restarts with date based naming).",
                note="universe protected from unexplained loss = statements since the last 'w' start; timestamps non-decreasing across restarts"),
    "C15": dict(cat="exploration", ref="6/C15", tech="runtime monitoring: offline oracle comparing which file each statement landed in with an independent rotation schedule",
                text="Same harness with minutely/hourly/daily rotation, GMT/local zones, combined with size and backup limits: statements separated by a scheduled "
                     "point never share a file, statements without a point between them do, rotated files carry their opening moment, plus the C14 oracle. "
                     "The unchanged tree drifted off the schedule; repaired by a fix: commit.",
                note="local daily rotation is judged on days without DST transition; a restart re-anchors the schedule"),
    "C03": dict(cat="exploration", ref="6/C03", tech="runtime monitoring: offline exactly-once/order checker over issue log + recording-sink log; free-running (TSan/ASan) and cooperatively scheduled executions with hook-window injection",
                text="Real frontend threads, real backend and recording sinks over generated topologies/backend options/message sizes. Mode F: real concurrency with "
                     "random delays in the backend's windows under dbg/ASan/TSan/release builds; mode S: deterministic cooperative schedules (ManualBackendWorker) with "
                     "operations injected between queue reads and inside the batch loop, threads exiting before the first poll. Offline checker: exactly once per "
                     "(logger, sink), per-thread order, payload integrity, nothing on unattached sinks.",
                note="interleavings in mode S are at operation/hook granularity; instruction-level simultaneity only through mode F"),
    "C05": dict(cat="exploration", ref="6/C05", tech="runtime monitoring: offline timestamp-order checker with lateness justification under an interposed virtual clock (mode S) and the real clock (mode F)",
                text="Virtual clock interposed at link time (clock_gettime), producers parked between clock read and enqueue, clock jumps around the grace period, "
                     "backend stepped inside its windows, first-time loggers inside the cache-refresh window, small hard limits. Every inversion in a sink's write "
                     "order must be justified by the overtaken statement's enqueue lateness > grace. Found the first-time-logger window defect (repaired).",
                note="System-clock loggers only; Tsc timestamps are an estimate and are not judged"),
    "C06": dict(cat="exploration", ref="6/C06", tech="runtime monitoring: online post-condition check on the flushing thread (sink write+flush events, file content through a fresh descriptor) in modes F and S",
                text="Every flush_log() return is judged at once with the backend still running: own earlier statements (and, with ordering enabled, other threads' "
                     "statements that completed before the call) written to all sinks, each sink flushed afterwards, readable from the real file. Mode S drives the "
                     "first-time-logger race inside the backend's cache-refresh/timestamp window (defect found and repaired). 'Returns' judged in backend idle cycles.",
                note="cross-thread demand only with non-zero grace period and System clock, as the property states"),
    "C08": dict(cat="exploration", ref="6/C08", tech="runtime monitoring: offline delivered-xor-reported checker over boolean results, sink log and parsed error-notifier counts",
                text="Dropping queues (bounded 2 KiB, unbounded 1->4 KiB) flooded in modes S/F with the boolean result of every log call kept; delivered = returned true, "
                     "exactly once, in order; bounded: notifier drop counts per OS thread = false returns. Control requests under flood must take effect. Found "
                     "and repaired: drop counts lost when an exited thread's context is reclaimed after a flush request.",
                note="oversize statement on an unbounded dropping queue throws (C02) and counts as not enqueued"),
    "C10": dict(cat="fault_enumeration", ref="6/C10", tech="fault enumeration at runtime: every (position, format-fault kind) and every (sink, call index) write/flush throw enumerated for a 12-statement history, larger histories sampled; offline checker",
                text="Faults are injected into the real backend (run-time format mismatches, user formatter throwing std / non-std / int, backtrace without init, "
                     "scripted sink throws) and the sink logs are checked: nothing else disturbed, at most one statement missing on the throwing sink and those after "
                     "it, notifier called, flush returns, probe processed. Sink throws are also enumerated over every write of a backtrace history (trigger statement, every "
                     "replay position) against the exact ring model. Found and repaired the non-std-exception livelock and the duplicated / lost backtrace replay after a sink throw.",
                note="single-line statements"),
    "C16": dict(cat="exploration", ref="6/C16", tech="runtime monitoring: side-effect counters in log arguments + offline per-sink acceptance model over recording sinks",
                text="Library macros (LOG_*, LOG_DYNAMIC) with a side-effecting argument; logger level, per-sink thresholds, scripted filters and override patterns drawn "
                     "per scenario; static and dynamic statements share 1-2 transit slots. Judged: evaluation <=> level >= logger level; per-sink acceptance model; "
                     "reported level/description; per-sink pattern.",
                note="level/filter changes happen at exact points (logging thread / flush-quiescent)"),
    "C17": dict(cat="exploration", ref="6/C17", tech="runtime monitoring: ASan/TSan/assert builds under create-log-remove-recreate workloads + offline incarnation checker and sink-destruction accounting",
                text="Loggers created, logged through, removed (blocking / non-blocking) and re-created under the same names over shared recording sinks, CsvWriter loops, "
                     "concurrent create_or_get; statements queued while removal is noticed (mode S injects inside clean-up windows). Checker: nothing lost across "
                     "removal, nothing on another incarnation's sinks, get_logger==nullptr after blocking removal, idempotent lookups, sinks destroyed exactly once "
                     "iff unreferenced; sanitizers for premature frees and races.",
                note="documented usage contract respected by the workload"),
    "C18": dict(cat="exploration", ref="6/C18", tech="runtime monitoring: reference ring model vs recording-sink sequence over generated store/flush/re-init histories; _GLIBCXX_ASSERTIONS + ASan",
                text="Histories of LOG_BACKTRACE, ordinary statements, explicit flushes and re-initialisations (capacity 1..8) with the ring wrapping several times "
                     "between flushes; the sink sequence must equal the model's exactly. The unchanged tree failed (index not reset); repaired.",
                note="one logging thread per logger keeps the model exact"),
    "C20": dict(cat="exploration", ref="6/C20", tech="runtime monitoring: retained-context count through the public ThreadContextManager API after logical drains; delivery checker; ASan/TSan",
                text="Rounds of 1..512 real threads that log and exit between two backend idle periods (exactly 256 and 512 included), then retained contexts must equal "
                     "live threads that logged; shrink requests take effect at once and lose nothing. Found and repaired the 8-bit invalid-context counter.",
                note="drain is logical (backend reported all-empty), never timed"),
    "C07": dict(cat="fault_enumeration", ref="6/C07", tech="fault enumeration at runtime: child processes stopped/exited/killed at every statement boundary, judged from outside (wait status + destination files + progress side files)",
                text="A child runs a scripted program over FileSinks and performs stop()/exit()/return/stop-start cycles or raises a handled signal at statement boundary k; "
                     "for the 6-statement program every k x action x other-thread state x backend load and every k x signal x victim thread are enumerated, larger programs, "
                     "Tsc clock and more cycles are sampled. The parent checks after waitpid that every statement whose call returned before the action is in its file "
                     "once and in order, notices follow, exit status / terminating signal are right.",
                note="out of process there is no logical clock: a 120 s watchdog (1000x the normal duration) with one re-run decides hangs"),
    "C04": dict(cat="exploration", ref="6/C04", tech="runtime monitoring: differential of the backend's message against call-site formatting over a catalogue of argument shapes with post-call argument destruction; codec-level size/canary checks; ASan+UBSan",
                text="90 argument type lists (all arithmetic widths, enums, pointers, C strings incl. null, terminated/unterminated char arrays, strings/views with "
                     "embedded NUL and non-printables, every quill/std container, optional/pair/tuple/chrono/path, deferred and direct user types, nested, 12-14 "
                     "variable-length args) driven with random values. End to end: expected text computed BEFORE the call, arguments overwritten/cleared/freed "
                     "after it, then the backend runs; sentinel statement after each. Codec level: computed size = written = consumed, canaries intact. Found "
                     "and repaired null-pointer memcpy UB.",
                note="types and format strings are compile-time: coverage is a catalogue, not every program; bundled fmt is the trusted formatter"),
    "C11": dict(cat="exploration", ref="6/C11", tech="runtime monitoring: thread-local allocation counters in interposed malloc/mmap armed around each log call; thread id recorded inside user formatters",
                text="Same catalogue with a real backend thread: after preallocate()/warm-up every log call of a shape in the property's class must perform 0 heap "
                     "allocations and 0 mmaps on the caller (symbols interposed in the executable, no hook), for direct log_statement calls and the library's macro "
                     "families; deferred-format user types must be formatted on the backend thread only, direct-format ones at the call site. Found and "
                     "repaired: map codecs copied every element on the caller.",
                note="non-sanitizer builds only (the interposer cannot coexist with ASan/TSan allocators)"),
    "C19": dict(cat="exploration", ref="6/C19", tech="runtime monitoring: per-statement differential of message/key-value pairs against each template's construction data; JSON lines parsed with Python's json against sidecar expectations",
                text="29 named-argument templates (escaped braces next to/around/after placeholders, specs, 1..26 arguments, newline, LOGJ_ forms) each carrying its "
                     "positional form, names and specs; first-use order shuffled per seed (template cache). Recording sink: message and ordered pairs; JsonFileSink "
                     "file: one object per line, parses, fixed fields, original template as message, pairs in order. Found and repaired the '}}'-after-placeholder "
                     "scanner defect.",
                note="values need no JSON/hex escaping by construction"),
}

NOT_YET = "check not built yet in this revision (design in DESIGN.md section 6); not claimed until its harness exists"

NA = {}


def main():
    props = [json.loads(l)["id"] for l in open(os.path.join(V, "properties.jsonl"))]
    hooks_commits = subprocess.run(["git", "-C", "/repo", "log", "--format=%h %s"], capture_output=True, text=True).stdout.splitlines()
    hook_shas = [l.split()[0] for l in hooks_commits if "verif hook" in l]
    checks = []
    for pid in props:
        if pid not in CHECKS:
            continue
        c = CHECKS[pid]
        checks.append({
            "property_id": pid,
            "quick_cmd": "bin/check %s --tier quick" % pid,
            "thorough_cmd": "bin/check %s --tier thorough" % pid,
            "evidence_file": "evidence/%s.json" % pid,
            "replay_cmd_template": "bin/check %s --replay {path}" % pid,
            "engine": "vlib+harness",
            "level_claimed": {"category": c["cat"], "text": c["text"], "design_ref": "DESIGN.md section " + c["ref"]},
            "level_note": c["note"],
            "technique": c["tech"],
        })
    na = [{"property_id": p, "reason": NA.get(p, NOT_YET)} for p in props if p not in CHECKS]
    m = {
        "version": 1,
        "setup_cmd": "bin/check setup",
        "hooks": {
            "guard": "QUILL_VERIF",
            "enable": "harnesses are compiled from /repo/include with -DQUILL_VERIF (vlib/core.py COMMON_FLAGS); hook call-outs live in include/quill/core/VerifHooks.h",
            "baseline_off_cmd": "cmake --build /repo/_build -j16 && ctest --test-dir /repo/_build -j8 --timeout 900",
            "source_commits": hook_shas,
            "add_only": True,
        },
        "engines": [
            {"name": "vlib+harness", "path": "bin/check", "serves_properties": [c["property_id"] for c in checks],
             "kind_free_text": "python driver (build cache keyed by /repo/include hash, parallel runner, known-findings matcher, evidence writer) + C++ harnesses "
                               "that run the real quill headers under gcc sanitizers with online/offline monitors"}
        ],
        "checks": checks,
        "not_applicable": na,
        "notes": "Technique family: runtime monitoring and sanitizers. Exit codes: 0 held on what was observed, 1 VIOLATION line, 2 harness failure / inconclusive. "
                 "known_findings.json lists repaired (fixed) and recorded (known) defects; VERIF_SEED and VERIF_TIER are honoured.",
    }
    with open(os.path.join(V, "MANIFEST.json"), "w") as fh:
        json.dump(m, fh, indent=1)
        fh.write("\n")
    print("MANIFEST.json: %d checks, %d not_applicable" % (len(checks), len(na)))


if __name__ == "__main__":
    main()
