#!/usr/bin/python3
# Regenerates /verif/MANIFEST.json from the table below (kept in one place so the manifest stays valid).
import json, os, subprocess

V = os.path.dirname(os.path.dirname(os.path.abspath(__file__)))

CHECKS = {
    "C01": dict(cat="exploration", ref="6/C01", tech="runtime monitoring: online stream/grant oracles on real producer+consumer threads; ThreadSanitizer, ASan+UBSan builds",
                text="Real BoundedSPSCQueueImpl<uint16/uint32/size_t> driven by a producer and a consumer thread with random delays between API calls over "
                     "hundreds of (type, capacity, publish-batch) configurations; every record carries seq/len/pattern so loss, duplication, reordering, tearing, "
                     "early visibility, overwrite of unreleased bytes, non-contiguous or over-capacity grants are detected online; missing release/acquire edges "
                     "are detected by ThreadSanitizer on the same workload. Exploration, not proof: held on the executions produced.",
                note="x86-64 only: weak-memory outcomes are judged through TSan's happens-before analysis of produced executions; monitor atomics are relaxed"),
    "C02": dict(cat="exploration", ref="6/C02", tech="runtime monitoring: stream oracle + switch-sequence model + interposed mmap accounting; hook-window delay and deterministic step injection; TSan, ASan",
                text="Real UnboundedSPSCQueue under grow/shrink/cap workloads: two-thread stream mode with delays injected in the queue's own windows and a "
                     "single-threaded inject mode that runs the other role's steps inside those windows (the 'old node empty -> commit+publish next -> follow next' "
                     "order happens thousands of times per run). Oracles: sequence/payload, producer-vs-consumer switch sequence, capacity <= max, oversize "
                     "throws, refusal without mapping, mapping sizes and leak accounting through interposed mmap/munmap; ASan/TSan for retired nodes.",
                note="record sizes in (largest power of two <= max, max] are not drawn for non-power-of-two maxima"),
    "C09": dict(cat="exploration", ref="6/C09", tech="runtime monitoring: bounded-progress probes at exact quiescent states (queue level) and idle-cycle progress verdicts end to end",
                text="'Eventually' restated as bounded progress at quiescence. Queue level: after random histories the consumer drains and commits, then every "
                     "request up to the capacity (top 70 sizes + random) must be granted at once; unbounded: n <= max granted after at most one switch. "
                     "The unchanged tree failed this (reader position published in batches); repaired by a fix: commit, check stays armed.",
                note="liveness is judged in logical steps (quiescent probes / backend idle cycles), never in seconds"),
    "C12": dict(cat="exploration", ref="6/C12", tech="runtime monitoring: per-call differential of PatternFormatter::format against an independent pattern substitution (dbg + ASan/UBSan)",
                text="Real PatternFormatter driven directly with generated valid patterns (random subset/order of the 16 attributes, fill/align/width/precision specs, "
                     "literal text, hostile attribute values, run-time MacroMetadata) and compared per call with an independent reference substitution; invalid "
                     "patterns must throw at construction. Multi-line handling is judged end to end once the e2e family 'lines' is registered.",
                note="bundled fmt is the trusted base for applying one spec to one value; empty pattern = documented 'formatting disabled', not judged"),
    "C13": dict(cat="exploration", ref="6/C13", tech="runtime monitoring: per-call differential of TimestampFormatter against libc strftime over generated patterns, zones and instant sequences (dbg + ASan/UBSan)",
                text="Real TimestampFormatter/StringFromTime vs gmtime_r/localtime_r + strftime per call: ~10^7 calls per quick run over random patterns, 16 zones (all "
                     "tz database zones in the thorough tier), GMT and local mode, walks/repeats/backward jumps and walks across second, minute, hour, noon, "
                     "midnight, quarter-hour and the zone's own DST transitions. Found and repaired three defects (stale %c/%E/%O fields, repeated %Q specifier, "
                     "off-grid DST changes); one recorded finding (literal %% before r R T X Q).",
                note="libc + installed tz database + C locale are the reference"),
    "C14": dict(cat="exploration", ref="6/C14", tech="runtime monitoring: offline directory/file-content oracle over RotatingFileSink runs with restarts (dbg + ASan/UBSan)",
                text="Real RotatingFileSink driven in scratch directories over random configurations, statement sizes aimed at the limit, colliding timestamps and "
                     "0-4 process restarts; after every restart an oracle reads the directory: whole statements, one file each, order across files by the naming "
                     "scheme, only permitted deletions (a prefix), size bound, backup count (=min(rotations observed, backups) from a clean start), planted files "
                     "untouched. Two recorded findings (append-mode restarts with date based naming).",
                note="universe protected from unexplained loss = statements since the last 'w' start; timestamps non-decreasing across restarts"),
    "C15": dict(cat="exploration", ref="6/C15", tech="runtime monitoring: offline oracle comparing which file each statement landed in with an independent rotation schedule",
                text="Same harness with minutely/hourly/daily rotation, GMT/local zones, combined with size and backup limits: statements separated by a scheduled "
                     "point never share a file, statements without a point between them do, rotated files carry their opening moment, plus the C14 oracle. "
                     "The unchanged tree drifted off the schedule; repaired by a fix: commit.",
                note="local daily rotation is judged on days without DST transition; a restart re-anchors the schedule"),
}

NOT_YET = "check not built yet in this revision (design in DESIGN.md section 6); not claimed until its harness exists"

NA = {}


def main():
    props = [json.loads(l)["id"] for l in open(os.path.join(V, "properties.jsonl"))]
    hooks_commits = subprocess.run(["git", "-C", "/repo", "log", "--format=%h %s"], capture_output=True, text=True).stdout.splitlines()
    hook_shas = [l.split()[0] for l in hooks_commits if "verif hooks" in l]
    checks = []
    for pid in props:
        if pid not in CHECKS:
            continue
        c = CHECKS[pid]
        checks.append({
            "property_id": pid,
            "quick_cmd": "bin/check %s --tier quick" % pid,
            "thorough_cmd": "bin/check %s --tier thorough" % pid,
            "evidence_file": "evidence/%s.json" % pid,
            "replay_cmd_template": "bin/check %s --replay {path}" % pid,
            "engine": "vlib+harness",
            "level_claimed": {"category": c["cat"], "text": c["text"], "design_ref": "DESIGN.md section " + c["ref"]},
            "level_note": c["note"],
            "technique": c["tech"],
        })
    na = [{"property_id": p, "reason": NA.get(p, NOT_YET)} for p in props if p not in CHECKS]
    m = {
        "version": 1,
        "setup_cmd": "bin/check setup",
        "hooks": {
            "guard": "QUILL_VERIF",
            "enable": "harnesses are compiled from /repo/include with -DQUILL_VERIF (vlib/core.py COMMON_FLAGS); hook call-outs live in include/quill/core/VerifHooks.h",
            "baseline_off_cmd": "cmake --build /repo/_build -j16 && ctest --test-dir /repo/_build -j8 --timeout 900",
            "source_commits": hook_shas,
            "add_only": True,
        },
        "engines": [
            {"name": "vlib+harness", "path": "bin/check", "serves_properties": [c["property_id"] for c in checks],
             "kind_free_text": "python driver (build cache keyed by /repo/include hash, parallel runner, known-findings matcher, evidence writer) + C++ harnesses "
                               "that run the real quill headers under gcc sanitizers with online/offline monitors"}
        ],
        "checks": checks,
        "not_applicable": na,
        "notes": "Technique family: runtime monitoring and sanitizers. Exit codes: 0 held on what was observed, 1 VIOLATION line, 2 harness failure / inconclusive. "
                 "known_findings.json lists repaired (fixed) and recorded (known) defects; VERIF_SEED and VERIF_TIER are honoured.",
    }
    with open(os.path.join(V, "MANIFEST.json"), "w") as fh:
        json.dump(m, fh, indent=1)
        fh.write("\n")
    print("MANIFEST.json: %d checks, %d not_applicable" % (len(checks), len(na)))


if __name__ == "__main__":
    main()
