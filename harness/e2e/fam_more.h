// more families: backtrace (C18), threads (C20), faults (C10), drop (C08), progress (C09), levels (C16),
// lifecycle (C17), lines (C12)
#pragma once
#include "quill/sinks/JsonSink.h"
#include <fstream>
#include "e2e/fam_flush.h"
#include "quill/DeferredFormatCodec.h"

#include <deque>

// ---------------------------------------------------------------------------------------------- fault injection type
namespace e2e
{
struct Bomb
{
  int kind;      // 0 harmless, 1 std::runtime_error, 2 a type not derived from std::exception, 3 an int
  uint32_t tid, seq;
};
struct NotStd
{
  int x;
};
inline std::atomic<uint32_t> g_backend_tid{0};
inline std::atomic<uint64_t> g_fmt_on_other_thread{0};
} // namespace e2e

template <>
struct fmtquill::formatter<e2e::Bomb>
{
  constexpr auto parse(format_parse_context& ctx) { return ctx.begin(); }
  auto format(e2e::Bomb const& b, format_context& ctx) const
  {
    if (b.kind == 1) throw std::runtime_error{"bomb runtime_error"};
    if (b.kind == 2) throw e2e::NotStd{7};
    if (b.kind == 3) throw 42;
    return fmtquill::format_to(ctx.out(), "{}|{}|0|", b.tid, b.seq);
  }
};
template <>
struct quill::Codec<e2e::Bomb> : quill::DeferredFormatCodec<e2e::Bomb>
{
};

namespace e2e
{
// ================================================================================================ backtrace (C18)
struct BtModel
{
  uint32_t cap{0};
  quill::LogLevel flush_level{quill::LogLevel::None};
  std::deque<std::pair<uint32_t, uint32_t>> ring;
  std::vector<std::pair<uint32_t, uint32_t>> expected; // what the sink must show, in order
  void store(uint32_t tid, uint32_t seq)
  {
    ring.emplace_back(tid, seq);
    while (ring.size() > cap) ring.pop_front();
  }
  void flush()
  {
    for (auto const& id : ring) expected.push_back(id);
    ring.clear();
  }
};

// a backtrace statement, optionally with named placeholders (the stored copy must keep message, pairs and payload)
inline int log_bt(Lg* lg, bool named, uint32_t tid, uint32_t seq, uint32_t len)
{
  int res = -1;
  std::string const pl = payload(tid, seq, len);
  std::string_view const sv{pl};
  if (named) VF_LOG_RES(res, lg, quill::LogLevel::Backtrace, "{tid}|{seq}|{len}|{pl}", tid, seq, len, sv);
  else VF_LOG_RES(res, lg, quill::LogLevel::Backtrace, "{}|{}|{}|{}", tid, seq, len, sv);
  return res;
}

inline bool backtrace_S(Rng& r, uint64_t idx)
{
  World w;
  w.tag = "bS" + std::to_string(idx);
  w.random_backend_options(r);
  uint32_t const nl = static_cast<uint32_t>(r.range(1, 3));
  w.make_sinks(nl);
  for (uint32_t l = 0; l < nl; ++l) w.make_logger({l});
  recorder().clear();
  SRun run{w, r};
  std::vector<BtModel> model(nl);
  std::vector<SW*> owner; // one logging thread per logger: exact model
  for (uint32_t l = 0; l < nl; ++l) owner.push_back(&run.spawn());
  World* wp = &w;
  bool lag = r.chance(1, 2); // let the backend lag behind (it is drained before anything that changes the flush level)
  uint64_t wraps = 0, flushes = 0, wrapped_flushes = 0, reinit = 0, stores = 0, dropped = 0, dynamic_ordinary = 0;
  std::map<std::pair<uint32_t, uint32_t>, std::pair<uint32_t, bool>> bt_info; // (tid, seq) -> (payload length, named placeholders)
  auto settle = [&] { run.drain("backtrace_S"); };
  auto init = [&](uint32_t l, uint32_t cap, quill::LogLevel fl)
  {
    settle(); // the flush level is stored by the caller at once, not through the queue: keep the model exact
    SW* sp = owner[l];
    run.run_on(*sp, [wp, l, cap, fl] { tl_control_op = true; wp->loggers[l].lg->init_backtrace(cap, fl); tl_control_op = false; }, "init_backtrace");
    if (model[l].cap != cap) model[l].ring.clear();
    model[l].cap = cap;
    model[l].flush_level = fl;
    settle();
  };
  for (uint32_t l = 0; l < nl; ++l) init(l, static_cast<uint32_t>(r.range(1, 8)), r.chance(1, 2) ? quill::LogLevel::None : r.pick({quill::LogLevel::Warning, quill::LogLevel::Error, quill::LogLevel::Info}));
  uint32_t const steps = static_cast<uint32_t>(r.range(30, 250));
  uint64_t since_flush_max = 0;
  std::vector<uint64_t> since_flush(nl, 0);
  for (uint32_t st = 0; st < steps && !run.failed; ++st)
  {
    uint32_t l = static_cast<uint32_t>(r.below(nl));
    SW* sp = owner[l];
    if (sp->w->parked()) { run.poll(); run.resume(*sp); continue; }
    uint64_t x = r.below(100);
    BtModel& m = model[l];
    if (x < 55)
    {
      uint32_t seq = sp->seq++;
      auto rp = std::make_shared<int>(1); // heap: a parked call completes after this frame is gone
      bool const named = r.chance(1, 3);
      uint32_t const blen = static_cast<uint32_t>(r.chance(1, 4) ? r.range(80, 300) : r.range(0, 20)); // beyond the event's inline buffer too
      run.run_on(*sp, [wp, sp, l, seq, rp, named, blen] { *rp = log_bt(wp->loggers[l].lg, named, sp->tid, seq, blen); }, "bt");
      if (*rp != 1) { ++dropped; continue; } // dropping queue refused it: never stored
      bt_info[{sp->tid, seq}] = {blen, named};
      m.store(sp->tid, seq);
      ++stores;
      if (++since_flush[l] > m.cap) ++wraps;
      since_flush_max = std::max(since_flush_max, since_flush[l]);
    }
    else if (x < 80)
    {
      quill::LogLevel lvl = r.pick({quill::LogLevel::TraceL1, quill::LogLevel::Debug, quill::LogLevel::Info, quill::LogLevel::Warning, quill::LogLevel::Error, quill::LogLevel::Critical});
      uint32_t seq = sp->seq++;
      auto rp = std::make_shared<int>(1);
      // one ordinary statement in three supplies its level at run time: it triggers the replay iff THAT level reaches
      // the flush level, exactly like a static one
      bool const dyn = r.chance(1, 3);
      if (dyn) ++dynamic_ordinary;
      run.run_on(*sp, [wp, sp, l, seq, lvl, rp, dyn]
                 {
                   if (!dyn) { std::vector<Issue> tmp; *rp = issue_std(tmp, wp->loggers[l].lg, static_cast<uint16_t>(l), lvl, sp->tid, seq, 3).res; return; }
                   std::string const pl = payload(sp->tid, seq, 3);
                   std::string_view const sv{pl};
                   uint32_t const len = 3;
                   int res = -1;
                   VF_LOG_DYN(res, wp->loggers[l].lg, lvl, "{}|{}|{}|{}", sp->tid, seq, len, sv);
                   *rp = res;
                 },
                 "log");
      if (*rp != 1) { ++dropped; continue; }
      m.expected.emplace_back(sp->tid, seq);
      if (lvl >= m.flush_level)
      {
        if (since_flush[l] > m.cap) ++wrapped_flushes;
        ++flushes;
        m.flush();
        since_flush[l] = 0;
      }
    }
    else if (x < 92)
    {
      run.run_on(*sp, [wp, l] { tl_control_op = true; wp->loggers[l].lg->flush_backtrace(); tl_control_op = false; }, "flush_backtrace");
      if (since_flush[l] > m.cap) ++wrapped_flushes;
      ++flushes;
      m.flush();
      since_flush[l] = 0;
    }
    else if (x < 96)
    {
      uint32_t cap = r.chance(1, 3) ? m.cap : static_cast<uint32_t>(r.range(1, 8));
      quill::LogLevel fl = r.chance(1, 2) ? quill::LogLevel::None : r.pick({quill::LogLevel::Warning, quill::LogLevel::Error, quill::LogLevel::Info});
      if (cap != m.cap) since_flush[l] = 0;
      init(l, cap, fl);
      ++reinit;
    }
    if (!lag || r.chance(1, 5)) run.poll();
  }
  bool ok = !run.failed && run.drain("backtrace_S");
  if (ok)
  {
    auto evs = recorder().snapshot();
    for (uint32_t l = 0; l < nl && ok; ++l)
    {
      std::vector<std::pair<uint32_t, uint32_t>> got;
      for (auto const& e : evs)
        if (e.kind == 'w' && e.sink == w.sink_id_base + l)
        {
          Parsed p = parse_msg(e.msg);
          if (!p.ok) continue;
          got.emplace_back(p.tid, p.seq);
          // the replayed copy is complete: payload intact, and exactly its own key/value pairs
          auto bi = bt_info.find({p.tid, p.seq});
          bool const named = bi != bt_info.end() && bi->second.second;
          std::vector<std::pair<std::string, std::string>> want;
          if (named) want = {{"tid", std::to_string(p.tid)}, {"seq", std::to_string(p.seq)}, {"len", std::to_string(p.len)}, {"pl", payload(p.tid, p.seq, p.len)}};
          bool const named_ok = named ? (e.has_named && e.named == want) : (!e.has_named || e.named.empty());
          if (!p.payload_ok || (bi != bt_info.end() && bi->second.first != p.len) || !named_ok)
          {
            // run on behalf of C19 (--label C19): key/value pairs that are not the statement's own are that property's
            violation((!named_ok && g_label == "C19") ? "C19" : "C18", !named_ok ? "replayed-statement-named-args-differ" : "replayed-statement-corrupt", J{}.unum("tid", p.tid).unum("seq", p.seq).unum("len", p.len).boolean("named", named).unum("pairs", e.named.size()).str("scenario", "backtrace_S").raw("cfg", w.describe()));
            ok = false;
            break;
          }
        }
      if (!ok) break;
      auto const& exp = model[l].expected;
      size_t i = 0;
      while (i < got.size() && i < exp.size() && got[i] == exp[i]) ++i;
      if (i != got.size() || i != exp.size())
      {
        std::string g, e;
        for (size_t k = i >= 4 ? i - 4 : 0; k < std::min(got.size(), i + 6); ++k) g += std::to_string(got[k].second) + " ";
        for (size_t k = i >= 4 ? i - 4 : 0; k < std::min(exp.size(), i + 6); ++k) e += std::to_string(exp[k].second) + " ";
        violation("C18", i < got.size() && i < exp.size() ? "backtrace-replay-differs-from-ring-model" : got.size() < exp.size() ? "backtrace-or-statement-missing" : "unexpected-extra-output",
                  J{}.unum("logger", l).unum("first_difference_at", i).str("delivered_seqs_near", g).str("expected_seqs_near", e).unum("delivered", got.size()).unum("expected", exp.size()).unum("capacity", model[l].cap).unum("wrapped_flushes_in_scenario", wrapped_flushes).str("scenario", "backtrace_S").raw("cfg", w.describe()));
        ok = false;
      }
    }
    run.finish_workers();
    run.poll();
  }
  stat_add("backtrace_dynamic_level_ordinary_statements", static_cast<long long>(dynamic_ordinary));
  stat_add("backtrace_scenarios");
  stat_add("backtrace_stores", static_cast<long long>(stores));
  stat_add("backtrace_flushes", static_cast<long long>(flushes));
  stat_add("backtrace_flushes_of_a_wrapped_ring", static_cast<long long>(wrapped_flushes));
  stat_add("backtrace_reinits", static_cast<long long>(reinit));
  stat_add("backtrace_statements_refused_by_dropping_queue", static_cast<long long>(dropped));
  if (wrapped_flushes >= 2) stat_sig("backtrace_sigs", std::to_string(run.sig_hash));
  w.teardown_loggers();
  return ok && !run.failed;
}

// ================================================================================================ threads (C20)
inline size_t count_contexts()
{
  size_t n = 0;
  quill::detail::ThreadContextManager::instance().for_each_thread_context([&n](quill::detail::ThreadContext*) { ++n; });
  return n;
}

inline bool threads_S(Rng& r, uint64_t idx)
{
  World w;
  w.tag = "tS" + std::to_string(idx);
  w.random_backend_options(r);
  make_topology(w, r, 2, 2);
  recorder().clear();
  SRun run{w, r};
  World* wp = &w;
  size_t const base = count_contexts(); // contexts that exist before the scenario (none are expected in mode S)
  static uint32_t const counts[] = {1, 7, 64, 255, 256, 257, 300, 512};
  uint32_t const rounds = static_cast<uint32_t>(r.range(2, 5));
  uint64_t threads_total = 0, max_exits_between_idle = 0;
  bool ok = true;
  for (uint32_t rd = 0; rd < rounds && ok && !run.failed; ++rd)
  {
    uint32_t n = counts[r.below(idx % 3 == 0 ? 8 : 5)];
    uint32_t const poll_policy = static_cast<uint32_t>(r.below(3)); // 0: no poll until all exited, 1: some polls in between, 2: poll often
    std::vector<SW*> alive;
    uint64_t exits_since_idle = 0;
    bool const some_stay_alive = r.chance(1, 3);
    for (uint32_t i = 0; i < n; ++i)
    {
      SW& s = run.spawn();
      // every thread logs at least once (a thread that never logged has no context), except in "mixed" rounds
      uint32_t k = static_cast<uint32_t>(some_stay_alive && r.chance(1, 10) ? 0 : r.range(1, 6));
      for (uint32_t j = 0; j < k && !s.w->parked(); ++j)
      {
        uint16_t li = static_cast<uint16_t>(r.below(w.loggers.size()));
        SW* sp = &s;
        run.run_on(s, [wp, sp, li] { issue_std(sp->issues, wp->loggers[li].lg, li, quill::LogLevel::Info, sp->tid, sp->seq++, 12); }, "log");
      }
      if (s.w->parked()) { alive.push_back(&s); continue; }
      if (some_stay_alive && r.chance(1, 40)) alive.push_back(&s); // stays alive over the drain
      else
      {
        run.exit_worker(s);
        ++exits_since_idle;
      }
      if (poll_policy == 2 || (poll_policy == 1 && r.chance(1, 20)))
      {
        uint64_t before = g_idle_cycles.load();
        run.poll();
        if (g_idle_cycles.load() != before) { max_exits_between_idle = std::max(max_exits_between_idle, exits_since_idle); exits_since_idle = 0; }
      }
    }
    max_exits_between_idle = std::max(max_exits_between_idle, exits_since_idle);
    threads_total += n;
    if (!run.drain("threads_S")) { ok = false; break; }
    for (int k = 0; k < 3; ++k) run.poll();
    // retained contexts == live threads that have logged
    size_t live_logged = 0;
    for (auto& s : run.ws) if (!s->exited && !s->issues.empty()) ++live_logged;
    size_t const got = count_contexts() - base;
    if (got != live_logged)
    {
      violation("C20", got > live_logged ? "thread-contexts-retained-after-drain" : "thread-context-of-live-thread-removed",
                J{}.unum("retained", got).unum("live_threads_that_logged", live_logged).unum("threads_in_round", n).unum("round", rd).unum("max_exits_between_two_backend_idle_periods", max_exits_between_idle).str("scenario", "threads_S").raw("cfg", w.describe()));
      ok = false;
      break;
    }
    for (auto* s : alive) if (!s->exited && !s->w->parked()) run.exit_worker(*s);
  }
  if (ok)
  {
    ok = run.drain("threads_S");
    if (ok)
    {
      auto evs = recorder().snapshot();
      ok = check_delivery(w, run.all_issues(), evs, DeliverOpts{"C20"}, "threads_S");
      run.finish_workers();
      run.poll();
    }
  }
  stat_add("threads_scenarios");
  stat_add("threads_created_and_exited", static_cast<long long>(threads_total));
  stat_add("max_exits_between_two_backend_idle_periods", 0);
  {
    std::lock_guard<std::mutex> g{g_stats_mu};
    g_stats.mx("max_thread_exits_between_two_backend_idle_periods", static_cast<long long>(max_exits_between_idle));
  }
  stat_sig("threads_sigs", std::to_string(run.sig_hash % 1000003) + "/" + std::to_string(max_exits_between_idle));
  w.teardown_loggers();
  return ok && !run.failed;
}

// mode F: real threads, backend kept busy by a slow sink; plus shrink requests (unbounded queues)
inline bool threads_F(Rng& r, uint64_t idx)
{
  World w;
  w.tag = "tF" + std::to_string(idx);
  w.random_backend_options(r);
  make_topology(w, r, 2, 2);
  if (r.chance(1, 2)) w.sinks[0]->slow_us.store(static_cast<uint32_t>(r.pick({20, 100})));
  g_delay.store(static_cast<uint32_t>(r.pick({0, 1})));
  recorder().clear();
  size_t const base = count_contexts();
  quill::Backend::start(w.bo);
  static uint32_t const counts[] = {3, 16, 64, 200, 256, 300};
  uint32_t const rounds = static_cast<uint32_t>(r.range(1, 3));
  std::vector<Issue> all;
  std::mutex all_mu;
  bool ok = true;
  uint64_t threads_total = 0, shrinks = 0;
  uint32_t next_tid = 1;
  for (uint32_t rd = 0; rd < rounds && ok; ++rd)
  {
    uint32_t const n = counts[r.below(idx % 4 == 0 ? 6 : 3)];
    std::vector<std::thread> ths;
    std::atomic<bool> bad{false};
    for (uint32_t i = 0; i < n; ++i)
    {
      uint64_t tseed = mix(r.next(), i);
      uint32_t tid = next_tid++;
      ths.emplace_back([&, tseed, tid]
                       {
                         Rng tr{tseed};
                         std::vector<Issue> mine;
                         uint32_t seq = 0;
                         uint32_t k = static_cast<uint32_t>(tr.range(0, 8));
                         for (uint32_t j = 0; j < k; ++j)
                         {
                           uint16_t li = static_cast<uint16_t>(tr.below(w.loggers.size()));
                           issue_std(mine, w.loggers[li].lg, li, quill::LogLevel::Info, tid, seq++, 16);
                         }
                         if (!kBounded && tr.chance(1, 4))
                         {
                           // grow the queue with a burst, then ask for it to shrink
                           for (uint32_t j = 0; j < 12; ++j) issue_std(mine, w.loggers[0].lg, 0, quill::LogLevel::Info, tid, seq++, static_cast<uint32_t>(std::min<size_t>(kMaxPayload, 700)));
                           size_t const before = Fe::get_thread_local_queue_capacity();
                           size_t const c = tr.chance(1, 3) ? before : tr.pick<size_t>({64, 256, 1024, before / 2});
                           Fe::shrink_thread_local_queue(c);
                           size_t const after = Fe::get_thread_local_queue_capacity();
                           size_t want = 1;
                           while (want < c) want <<= 1;
                           bool const valid = c <= before / 2;
                           if ((valid && after != want) || (!valid && after != before))
                           {
                             violation("C20", "shrink-request-did-not-take-effect", J{}.unum("before", before).unum("requested", c).unum("after", after).str("scenario", "threads_F"));
                             bad.store(true);
                           }
                           for (uint32_t j = 0; j < 6; ++j) issue_std(mine, w.loggers[0].lg, 0, quill::LogLevel::Info, tid, seq++, 40);
                         }
                         std::lock_guard<std::mutex> g{all_mu};
                         all.insert(all.end(), mine.begin(), mine.end());
                       });
    }
    for (auto& t : ths) t.join();
    threads_total += n;
    if (bad.load()) { ok = false; break; }
    // drain: wait (logically) until the backend has been idle with everything empty a few times after the last exit
    w.sinks[0]->slow_us.store(0);
    uint64_t const mark = g_idle_cycles.load();
    uint64_t spins = 0;
    while (g_idle_cycles.load() < mark + 5 && ++spins < 20000000) std::this_thread::sleep_for(std::chrono::microseconds(50));
    if (spins >= 20000000) { inconclusive("threads_F: backend did not report idle"); break; }
    size_t const got = count_contexts() - base;
    if (got != 0)
    {
      violation("C20", "thread-contexts-retained-after-drain", J{}.unum("retained", got).unum("live_threads_that_logged", 0).unum("threads_in_round", n).unum("round", rd).str("scenario", "threads_F").raw("cfg", w.describe()));
      ok = false;
    }
  }
  quill::Backend::stop();
  g_delay.store(0);
  if (ok)
  {
    auto evs = recorder().snapshot();
    ok = check_delivery(w, all, evs, DeliverOpts{"C20"}, "threads_F");
  }
  (void)shrinks;
  stat_add("threads_scenarios");
  stat_add("threads_created_and_exited", static_cast<long long>(threads_total));
  stat_sig("threads_sigs", "F/" + std::to_string(threads_total) + "/" + std::to_string(w.bo.transit_events_hard_limit));
  w.teardown_loggers();
  return ok;
}

// ================================================================================================ faults (C10)
struct FaultPlan
{
  // per statement index in the global issue order: 0 none, 1 too few args, 2 wrong spec, 3 bomb std, 4 bomb non-std, 5 bomb int, 6 backtrace w/o init, 9-11 named-placeholder bombs, 12-14 bombs in a statement whose level is supplied at run time
  std::vector<uint8_t> kind;
};

inline int log_faulty(Lg* lg, uint8_t kind, uint32_t tid, uint32_t seq)
{
  int res = -1;
  std::string const pl = payload(tid, seq, 4);
  std::string_view const sv{pl};
  uint32_t const len = 4;
  switch (kind)
  {
  case 1: VF_LOG_RES(res, lg, quill::LogLevel::Info, "{}|{}|{}|{} {}", tid, seq, len, sv); break;     // an argument is missing
  case 2: VF_LOG_RES(res, lg, quill::LogLevel::Info, "{}|{}|{}|{:d}", tid, seq, len, sv); break;      // spec does not fit the type
  case 3: VF_LOG_RES(res, lg, quill::LogLevel::Info, "{}", Bomb{1, tid, seq}); break;
  case 4: VF_LOG_RES(res, lg, quill::LogLevel::Info, "{}", Bomb{2, tid, seq}); break;
  case 5: VF_LOG_RES(res, lg, quill::LogLevel::Info, "{}", Bomb{3, tid, seq}); break;
  case 6: VF_LOG_RES(res, lg, quill::LogLevel::Backtrace, "{}|{}|{}|{}", tid, seq, len, sv); break;   // no init_backtrace on this logger
  case 7: VF_LOG_RES(res, lg, quill::LogLevel::Info, "{}", Bomb{0, tid, seq}); break;                 // harmless user type
  case 8: VF_LOG_RES(res, lg, quill::LogLevel::Info, "{tid}|{seq}|{len}|{pl}", tid, seq, len, sv); break; // harmless, named placeholders
  case 9: VF_LOG_RES(res, lg, quill::LogLevel::Info, "{bomb}", Bomb{1, tid, seq}); break;            // named placeholder, formatter throws std
  case 10: VF_LOG_RES(res, lg, quill::LogLevel::Info, "{bomb}", Bomb{2, tid, seq}); break;           // ... a non-std type
  case 11: VF_LOG_RES(res, lg, quill::LogLevel::Info, "{bomb}", Bomb{3, tid, seq}); break;           // ... an int
  case 12: VF_LOG_DYN(res, lg, quill::LogLevel::Info, "{}", Bomb{1, tid, seq}); break;               // level supplied at run time, formatter throws std
  case 13: VF_LOG_DYN(res, lg, quill::LogLevel::Warning, "{}", Bomb{2, tid, seq}); break;            // ... a non-std type (the record has a trailing level byte)
  case 14: VF_LOG_DYN(res, lg, quill::LogLevel::Error, "{}", Bomb{3, tid, seq}); break;              // ... an int
  default: break;
  }
  return res;
}

inline bool faults_S(Rng& r, uint64_t idx)
{
  World w;
  w.tag = "xS" + std::to_string(idx);
  w.random_backend_options(r);
  // one scenario in three runs with the printable-character check switched off (the documented way: an empty function)
  if (r.chance(1, 3)) w.bo.check_printable_char = {};
  w.make_sinks(3);
  w.make_logger({0, 1, 2});
  w.make_logger(r.chance(1, 2) ? std::vector<uint32_t>{2, 0} : std::vector<uint32_t>{1});
  recorder().clear();
  SRun run{w, r};
  SW& a = run.spawn();
  SW& b = run.spawn();
  World* wp = &w;
  // history of N statements; every (position, kind) and every (sink, call index) is enumerated across scenarios
  uint32_t const N = 12;
  constexpr uint64_t KINDS = 14;
  bool const enumerate = idx < 12 * KINDS + 3 * 14 * 3;
  int fault_pos = -1, fault_kind = 0, sink_fault = -1, sink_call = -1;
  bool sink_fault_flush = false, sink_fault_flush_persistent = false;
  if (enumerate)
  {
    if (idx < 12 * KINDS) { fault_pos = static_cast<int>(idx / KINDS); fault_kind = static_cast<int>(idx % KINDS) + 1; }
    else
    {
      uint64_t k = idx - 12 * KINDS;
      sink_fault = static_cast<int>(k % 3);
      sink_call = static_cast<int>((k / 3) % 14);
      sink_fault_flush = (k / 42) >= 1;
      sink_fault_flush_persistent = (k / 42) == 2; // from that call on every flush of the sink throws
    }
  }
  std::vector<std::pair<int, int>> faults; // sampled: several simultaneous faults
  if (!enumerate)
  {
    uint32_t nf = static_cast<uint32_t>(r.range(1, 4));
    for (uint32_t i = 0; i < nf; ++i) faults.emplace_back(static_cast<int>(r.below(N * 2)), static_cast<int>(r.pick({1, 2, 3, 4, 5, 6, 9, 10, 11, 12, 13, 14})));
    if (r.chance(1, 2)) { sink_fault = static_cast<int>(r.below(3)); sink_call = static_cast<int>(r.below(20)); sink_fault_flush = r.chance(1, 3); sink_fault_flush_persistent = sink_fault_flush && r.chance(1, 2); }
  }
  if (sink_fault >= 0)
  {
    if (sink_fault_flush_persistent) w.sinks[sink_fault]->throw_on_flush_from.store(sink_call);
    else if (sink_fault_flush) w.sinks[sink_fault]->throw_on_flush.store(sink_call);
    else w.sinks[sink_fault]->throw_on_write.store(sink_call);
  }
  uint32_t const total = enumerate ? N : N * 2;
  uint32_t faults_injected = 0;
  std::set<std::pair<uint32_t, uint32_t>> faulty_ids;
  std::map<std::pair<uint32_t, uint32_t>, int> faulty_kind;
  for (uint32_t i = 0; i < total && !run.failed; ++i)
  {
    SW& s = (i % 3 == 1) ? b : a;
    if (s.w->parked()) { run.poll(); run.resume(s); }
    if (s.w->parked()) continue;
    uint16_t li = static_cast<uint16_t>(r.below(2));
    int kind = 0;
    if (enumerate && static_cast<int>(i) == fault_pos) kind = fault_kind;
    for (auto const& f : faults) if (f.first == static_cast<int>(i)) kind = f.second;
    SW* sp = &s;
    uint32_t seq = s.seq++;
    if (!kind && (i % 3) == 2) kind = 8; // every third ordinary statement uses named placeholders
    if (kind)
    {
      if (kind != 7 && kind != 8) ++faults_injected;
      faulty_ids.insert({s.tid, seq});
      faulty_kind[{s.tid, seq}] = kind;
      run.run_on(s, [wp, sp, li, kind, seq]
                 {
                   Issue is;
                   is.tid = sp->tid; is.seq = seq; is.logger = li; is.kind = (kind == 7 || kind == 8) ? 0 : 9; is.len = (kind == 8) ? 4 : 0; is.g_call = ticket();
                   is.res = static_cast<int8_t>(log_faulty(wp->loggers[li].lg, static_cast<uint8_t>(kind), sp->tid, seq));
                   is.g_ret = ticket();
                   sp->issues.push_back(is);
                 },
                 "log-faulty");
    }
    else
      run.run_on(s, [wp, sp, li, seq] { issue_std(sp->issues, wp->loggers[li].lg, li, quill::LogLevel::Info, sp->tid, seq, 6); }, "log");
    if (r.chance(1, 3)) run.poll();
  }
  // ---- a JSON file sink whose write fails once (its before_write callback throws on the k-th statement): that
  // statement is missing, every other one is there as one complete single-line object, in order
  bool json_ok = true;
  if (!run.failed && !a.w->parked() && r.chance(1, 2))
  {
    std::string const jpath = g_dir + "/" + w.tag + ".json";
    auto calls = std::make_shared<std::atomic<int>>(0);
    int const throw_at = static_cast<int>(r.below(8)); // 6 and 7: never
    quill::FileEventNotifier fen;
    fen.before_write = [calls, throw_at](std::string_view m)
    {
      if (calls->fetch_add(1) == throw_at) throw std::runtime_error{"scripted before_write failure"};
      return std::string{m};
    };
    quill::FileSinkConfig fc;
    fc.set_open_mode('w');
    auto js = Fe::create_or_get_sink<quill::JsonFileSink>(jpath, fc, fen);
    Lg* jl = Fe::create_or_get_logger(w.tag + "_json", js, quill::PatternFormatterOptions{"%(message)"}, quill::ClockSourceType::System);
    SW* jp = &a;
    uint32_t const first = a.seq;
    for (int i = 0; i < 6; ++i)
    {
      uint32_t const seq = a.seq++;
      run.run_on(a, [jl, jp, seq] { int res; uint32_t const len = 4; std::string const pl = payload(jp->tid, seq, len); std::string_view const sv{pl}; VF_LOG_RES(res, jl, quill::LogLevel::Info, "{tid}|{seq}|{len}|{pl}", jp->tid, seq, len, sv); (void)res; }, "log-json");
      if (a.w->parked()) run.wait_for(a, "faults_S");
      if (r.chance(1, 2)) run.poll();
    }
    if (!a.w->parked()) run.run_on(a, [jl] { tl_control_op = true; jl->flush_log(0); tl_control_op = false; }, "flush_log");
    if (run.wait_for(a, "faults_S") && run.drain("faults_S"))
    {
      std::ifstream in{jpath};
      std::vector<std::string> lines;
      for (std::string ln; std::getline(in, ln);) lines.push_back(ln);
      std::vector<uint32_t> want;
      for (int i = 0; i < 6; ++i) if (i != throw_at) want.push_back(first + static_cast<uint32_t>(i));
      bool good = lines.size() == want.size();
      for (size_t i = 0; good && i < lines.size(); ++i)
      {
        std::string const& ln = lines[i];
        std::string const id = "\"tid\":\"" + std::to_string(a.tid) + "\",\"seq\":\"" + std::to_string(want[i]) + "\"";
        size_t const ts1 = ln.find("\"timestamp\"");
        good = ln.rfind("{\"timestamp\"", 0) == 0 && ln.back() == '}' && ln.find(id) != std::string::npos && ln.find("\"timestamp\"", ts1 + 1) == std::string::npos;
      }
      if (!good)
      {
        violation("C10", "json-sink-output-disturbed-after-a-failed-write", J{}.unum("lines", lines.size()).unum("expected_lines", want.size()).num("write_that_threw", throw_at).str("first_line", lines.empty() ? "" : lines[0].substr(0, 200)).str("last_line", lines.empty() ? "" : lines.back().substr(0, 300)).str("scenario", "faults_S").raw("cfg", w.describe()));
        json_ok = false;
      }
      stat_add("faults_json_sink_scenarios");
    }
    Fe::remove_logger(jl);
    js.reset();
  }
  // flush_log() after the history must return (idle-cycle verdict in drain) and a final probe must be processed
  SW* ap = &a;
  if (!a.w->parked()) run.run_on(a, [wp] { tl_control_op = true; wp->loggers[0].lg->flush_log(0); tl_control_op = false; }, "flush_log");
  bool ok = json_ok && !run.failed && run.drain("faults_S");
  if (ok && sink_fault_flush)
  {
    // flush_log() has returned: a sink whose flush throws (once, or from some call on for good) must not keep the
    // OTHER sinks from being flushed - each of them has a completed flush after its last write
    auto evs = recorder().snapshot();
    std::map<uint32_t, uint64_t> last_w, last_f;
    for (auto const& e : evs)
    {
      if (e.sink < w.sink_id_base || e.sink >= w.sink_id_base + w.sinks.size()) continue;
      if (e.kind == 'w') last_w[w.sink_index_of(e.sink)] = e.g;
      if (e.kind == 'f') last_f[w.sink_index_of(e.sink)] = e.g;
    }
    for (auto const& kv : last_w)
    {
      if (static_cast<int>(kv.first) == sink_fault) continue;
      if (!last_f.count(kv.first) || last_f[kv.first] < kv.second)
      {
        violation("C10", "healthy-sink-not-flushed-after-another-sinks-flush-threw", J{}.unum("sink", kv.first).num("throwing_sink", sink_fault).num("from_flush_call", sink_call).boolean("persistent", sink_fault_flush_persistent).str("scenario", "faults_S").raw("cfg", w.describe()));
        ok = false;
        break;
      }
    }
    stat_add("faults_flush_throw_scenarios_judged");
  }
  if (ok)
  {
    uint32_t pseq = a.seq++;
    run.run_on(a, [wp, ap, pseq] { issue_std(ap->issues, wp->loggers[0].lg, 0, quill::LogLevel::Info, ap->tid, pseq, 9); }, "probe");
    ok = run.drain("faults_S");
  }
  if (ok)
  {
    auto evs = recorder().snapshot();
    // which statement did the sink throw on? the k-th write_log call of that sink: reconstruct from the event log:
    // the statement that is missing from sink S (and possibly the sinks after S in that logger's list)
    DeliverOpts o;
    o.prop = "C10";
    std::set<std::pair<uint32_t, uint32_t>> allowed_missing; // at most ONE statement may be missing, only from S and sinks after it
    int missing_budget = (sink_fault >= 0 && !sink_fault_flush) ? 1 : 0;
    std::pair<uint32_t, uint32_t> missing_id{0, 0};
    bool have_missing = false;
    o.may_be_missing = [&](Issue const& is)
    {
      if (have_missing && missing_id == std::make_pair(is.tid, is.seq)) return true;
      if (!have_missing && missing_budget > 0)
      {
        have_missing = true;
        missing_id = {is.tid, is.seq};
        return true;
      }
      return false;
    };
    // the sink-specific part: a statement may only be missing from the throwing sink and the sinks after it
    o.sink_accepts = nullptr;
    ok = check_delivery(w, run.all_issues(), evs, o, "faults_S");
    if (ok && have_missing)
    {
      // locate where it is missing
      Issue const* mi = nullptr;
      auto all = run.all_issues();
      for (auto const& is : all) if (is.tid == missing_id.first && is.seq == missing_id.second) mi = &is;
      EvIndex ix{w, evs};
      if (mi)
      {
        auto const& sl = w.loggers[mi->logger].sinks;
        bool after = false;
        for (uint32_t si : sl)
        {
          bool present = ix.write_g.count(std::make_tuple(si, mi->tid, mi->seq)) != 0;
          if (static_cast<int>(si) == sink_fault) after = true;
          if (!present && !after)
          {
            violation("C10", "statement-missing-from-a-sink-before-the-throwing-one", J{}.unum("tid", mi->tid).unum("seq", mi->seq).unum("sink", si).num("throwing_sink", sink_fault).str("scenario", "faults_S").raw("cfg", w.describe()));
            ok = false;
          }
        }
      }
    }
    // faulty-format statements: absent, or present once with the explanatory text
    if (ok)
    {
      std::map<std::tuple<uint32_t, std::string>, int> errtexts;
      for (auto const& e : evs)
      {
        if (e.kind != 'w') continue;
        if (e.msg.rfind("[Could not format log statement", 0) == 0) continue;
        Parsed p = parse_msg(e.msg);
        if (p.ok && faulty_ids.count({p.tid, p.seq}))
        {
          int k = faulty_kind[{p.tid, p.seq}];
          if (k != 7 && k != 8 && k != 0)
          {
            violation("C10", "faulty-statement-written-without-error-text", J{}.unum("tid", p.tid).unum("seq", p.seq).num("kind", k).str("msg", e.msg.substr(0, 120)).str("scenario", "faults_S"));
            ok = false;
            break;
          }
        }
      }
    }
    // named args belong to their own statement only: a plain statement never carries key/value pairs (a backend
    // buffer slot reused after a faulted statement must not leak that statement's pairs), a named one carries its own
    if (ok)
    {
      for (auto const& e : evs)
      {
        if (e.kind != 'w' || e.sink < w.sink_id_base || e.sink >= w.sink_id_base + w.sinks.size()) continue;
        Parsed p = parse_msg(e.msg);
        if (!p.ok) continue;
        auto it = faulty_kind.find({p.tid, p.seq});
        int const k = it == faulty_kind.end() ? 0 : it->second;
        if (k == 8)
        {
          std::vector<std::pair<std::string, std::string>> want{{"tid", std::to_string(p.tid)}, {"seq", std::to_string(p.seq)}, {"len", "4"}, {"pl", payload(p.tid, p.seq, 4)}};
          if (!e.has_named || e.named != want)
          {
            violation("C10", "named-args-of-statement-wrong-after-fault", J{}.unum("tid", p.tid).unum("seq", p.seq).unum("pairs", e.named.size()).str("first_key", e.named.empty() ? "" : e.named[0].first).str("scenario", "faults_S").raw("cfg", w.describe()));
            ok = false;
            break;
          }
        }
        else if (e.has_named && !e.named.empty())
        {
          violation("C10", "plain-statement-carries-named-args-of-another-statement", J{}.unum("tid", p.tid).unum("seq", p.seq).str("stale_key", e.named[0].first).str("stale_value", e.named[0].second.substr(0, 40)).str("scenario", "faults_S").raw("cfg", w.describe()));
          ok = false;
          break;
        }
      }
    }
    // the notifier received at least one message per injected fault
    if (ok)
    {
      size_t notes = 0;
      for (auto const& n : recorder().notes_snapshot())
        if (n.second.find("Quill INFO") == std::string::npos) ++notes;
      size_t want = faults_injected;
      if (sink_fault >= 0)
      {
        auto& sk = *w.sinks[sink_fault];
        uint64_t const calls = sink_fault_flush ? sk.flushes.load() : sk.writes.load();
        // a flush that keeps failing is reported every time it fails, not only the first time
        if (sink_fault_flush_persistent) want += calls > static_cast<uint64_t>(sink_call) ? calls - static_cast<uint64_t>(sink_call) : 0;
        else if (calls > static_cast<uint64_t>(sink_call)) ++want;
      }
      if (notes < want)
      {
        violation("C10", "fault-not-reported-through-error-notifier", J{}.unum("notifier_messages", notes).unum("faults_injected", want).str("scenario", "faults_S").raw("cfg", w.describe()));
        ok = false;
      }
    }
    run.finish_workers();
    run.poll();
  }
  stat_add("faults_scenarios");
  stat_add("faults_injected", faults_injected + (sink_fault >= 0 ? 1 : 0));
  stat_sig("faults_sigs", enumerate ? ("E/" + std::to_string(idx)) : ("R/" + std::to_string(run.sig_hash)));
  w.teardown_loggers();
  return ok && !run.failed;
}

// ================================================================================================ btfaults (C10)
// A sink whose write_log throws while it is handed a backtrace REPLAY (or the statement that triggers one): "at most
// that one statement is missing from that sink and the sinks after it; every other statement is still delivered
// exactly once and in order". One logger over three recording sinks, one logging thread (exact ring model), the
// throwing (sink, write-call index) is enumerated over every write of the history.
inline bool btfaults_S(Rng& r, uint64_t idx)
{
  World w;
  w.tag = "yS" + std::to_string(idx);
  w.random_backend_options(r);
  w.make_sinks(3);
  static uint32_t const orders[3][3] = {{0, 1, 2}, {2, 0, 1}, {1, 2, 0}};
  uint32_t const* ord = orders[(idx / 3) % 3];
  w.make_logger({ord[0], ord[1], ord[2]});
  recorder().clear();
  SRun run{w, r};
  SW& a = run.spawn();
  SW* sp = &a;
  World* wp = &w;
  int const sink_fault = static_cast<int>(idx % 3);
  int const sink_call = static_cast<int>((idx / 9) % 26); // beyond the last write: control case, nothing throws
  w.sinks[sink_fault]->throw_on_write.store(sink_call);
  BtModel m;
  m.cap = static_cast<uint32_t>(r.range(1, 5));
  m.flush_level = r.chance(1, 2) ? quill::LogLevel::Error : quill::LogLevel::None;
  {
    uint32_t const cap = m.cap;
    quill::LogLevel const fl = m.flush_level;
    run.run_on(a, [wp, cap, fl] { tl_control_op = true; wp->loggers[0].lg->init_backtrace(cap, fl); tl_control_op = false; }, "init_backtrace");
    if (a.w->parked()) run.wait_for(a, "btfaults_S");
    run.drain("btfaults_S");
  }
  bool const lag = r.chance(1, 2);
  uint64_t stores = 0, triggers = 0;
  auto settle = [&] { if (a.w->parked()) run.wait_for(a, "btfaults_S"); if (!lag || r.chance(1, 4)) run.poll(); };
  auto store = [&]
  {
    uint32_t const seq = a.seq++;
    bool const named = r.chance(1, 4);
    run.run_on(a, [wp, sp, seq, named] { log_bt(wp->loggers[0].lg, named, sp->tid, seq, 5); }, "bt");
    m.store(a.tid, seq);
    ++stores;
    settle();
  };
  auto ordinary = [&](quill::LogLevel lvl)
  {
    uint32_t const seq = a.seq++;
    run.run_on(a, [wp, sp, seq, lvl] { std::vector<Issue> tmp; issue_std(tmp, wp->loggers[0].lg, 0, lvl, sp->tid, seq, 3); }, "log");
    m.expected.emplace_back(a.tid, seq);
    if (lvl >= m.flush_level) { m.flush(); ++triggers; }
    settle();
  };
  auto trigger = [&]
  {
    if (m.flush_level == quill::LogLevel::Error && r.chance(1, 2)) { ordinary(quill::LogLevel::Error); return; }
    run.run_on(a, [wp] { tl_control_op = true; wp->loggers[0].lg->flush_backtrace(); tl_control_op = false; }, "flush_backtrace");
    m.flush();
    ++triggers;
    settle();
  };
  for (int phase = 0; phase < 3 && !run.failed; ++phase)
  {
    uint32_t const n = static_cast<uint32_t>(r.range(phase == 2 ? 0 : 1, m.cap + 2));
    for (uint32_t i = 0; i < n && !run.failed; ++i)
    {
      store();
      if (r.chance(1, 3)) ordinary(quill::LogLevel::Info);
    }
    trigger();
    if (r.chance(1, 2)) ordinary(quill::LogLevel::Info);
  }
  ordinary(quill::LogLevel::Info);
  trigger(); // whatever is still held back comes out here
  bool ok = !run.failed && run.drain("btfaults_S");
  if (ok)
  {
    auto const& E = m.expected;
    bool const throws = static_cast<size_t>(sink_call) < E.size();
    std::pair<uint32_t, uint32_t> const X = throws ? E[static_cast<size_t>(sink_call)] : std::make_pair(0u, 0u);
    auto evs = recorder().snapshot();
    bool after = false;
    for (uint32_t pos = 0; pos < 3 && ok; ++pos)
    {
      uint32_t const si = ord[pos];
      if (static_cast<int>(si) == sink_fault) after = true;
      std::vector<std::pair<uint32_t, uint32_t>> got;
      for (auto const& e : evs)
        if (e.kind == 'w' && e.sink == w.sink_id_base + si)
        {
          Parsed p = parse_msg(e.msg);
          if (p.ok) got.emplace_back(p.tid, p.seq);
        }
      std::vector<std::pair<uint32_t, uint32_t>> without;
      for (auto const& id : E) if (!throws || id != X) without.push_back(id);
      bool good;
      if (!throws || !after) good = got == E;
      else if (static_cast<int>(si) == sink_fault) good = got == without;
      else good = got == E || got == without;
      if (!good)
      {
        std::map<std::pair<uint32_t, uint32_t>, int> cnt;
        for (auto const& id : got) ++cnt[id];
        uint64_t dups = 0, missing = 0;
        for (auto const& kv : cnt) if (kv.second > 1) ++dups;
        for (auto const& id : E) if (!cnt.count(id) && (!throws || id != X)) ++missing;
        std::string g, e;
        for (auto const& id : got) g += std::to_string(id.second) + " ";
        for (auto const& id : E) e += std::to_string(id.second) + " ";
        violation("C10", dups ? "statement-written-twice-after-a-sink-threw-during-a-backtrace-replay" : missing ? "statement-lost-after-a-sink-threw-during-a-backtrace-replay" : "statements-reordered-after-a-sink-threw-during-a-backtrace-replay",
                  J{}.unum("sink", si).num("throwing_sink", sink_fault).num("throwing_write_call", sink_call).unum("statement_that_threw_seq", X.second).unum("duplicated", dups).unum("missing_besides_that_one", missing).unum("capacity", m.cap).str("delivered_seqs", g.substr(0, 300)).str("expected_seqs", e.substr(0, 300)).boolean("sink_is_at_or_after_the_throwing_one", after).str("scenario", "btfaults_S").raw("cfg", w.describe()));
        ok = false;
      }
    }
    if (ok && throws)
    {
      size_t notes = 0;
      for (auto const& n : recorder().notes_snapshot()) if (n.second.find("Quill INFO") == std::string::npos) ++notes;
      if (!notes)
      {
        violation("C10", "fault-not-reported-through-error-notifier", J{}.unum("notifier_messages", notes).unum("faults_injected", 1).str("scenario", "btfaults_S").raw("cfg", w.describe()));
        ok = false;
      }
    }
    if (throws) stat_add("btfaults_scenarios_with_a_throw");
    if (throws) stat_sig("faults_sigs", "B/" + std::to_string(sink_fault) + "/" + std::to_string(sink_call) + "/" + std::to_string((idx / 3) % 3) + "/" + std::to_string(run.sig_hash));
    run.finish_workers();
    run.poll();
  }
  stat_add("faults_scenarios");
  stat_add("btfaults_scenarios");
  stat_add("btfaults_stores", static_cast<long long>(stores));
  stat_add("btfaults_triggers", static_cast<long long>(triggers));
  w.teardown_loggers();
  return ok && !run.failed;
}

inline bool run_more_family(std::string const& family, Rng& sr, uint64_t i, bool& ok);
} // namespace e2e
#include "e2e/fam_more2.h"
