// family deliver (C03): every accepted statement reaches every sink of its logger once, in thread order
#pragma once
#include "e2e/srun.h"

namespace e2e
{
inline uint32_t draw_len(Rng& r)
{
  uint64_t x = r.below(20);
  if (x < 12) return static_cast<uint32_t>(r.range(0, 64));
  if (x < 16) return static_cast<uint32_t>(r.range(64, std::max<uint64_t>(65, kMaxPayload / 6)));
  if (x < 18) return static_cast<uint32_t>(r.range(kMaxPayload / 3, kMaxPayload / 2));
  if (x < 19) return static_cast<uint32_t>(kMaxPayload - r.below(std::min<uint64_t>(kMaxPayload, 40)));
  return static_cast<uint32_t>(kMaxPayload > 3000 ? r.range(1000, 3000) : kMaxPayload / 2);
}

inline void make_topology(World& w, Rng& r, uint32_t max_sinks = 4, uint32_t max_loggers = 5)
{
  uint32_t ns = static_cast<uint32_t>(r.range(1, max_sinks));
  w.make_sinks(ns);
  uint32_t nl = static_cast<uint32_t>(r.range(1, max_loggers));
  for (uint32_t l = 0; l < nl; ++l)
  {
    std::vector<uint32_t> idx;
    for (uint32_t i = 0; i < ns; ++i) idx.push_back(i);
    for (uint32_t i = ns - 1; i > 0; --i) std::swap(idx[i], idx[r.below(i + 1)]);
    idx.resize(r.range(1, std::min<uint32_t>(3, ns)));
    w.make_logger(idx);
  }
}

inline bool deliver_F(Rng& r, uint64_t idx)
{
  World w;
  w.tag = "dF" + std::to_string(idx);
  w.random_backend_options(r);
  if (r.chance(1, 4)) w.user_clock_mask = static_cast<uint32_t>(r.range(1, 31)); // some loggers stamp with a user clock that runs ahead
  // ... and some with rdtsc (the library default), mixed with system-clock loggers on the same threads: delivery and
  // per-thread order do not depend on the clock source
  if (!w.user_clock_mask && r.chance(1, 4)) w.tsc_mask = static_cast<uint32_t>(r.range(1, 31));
  make_topology(w, r);
  uint32_t const nt = static_cast<uint32_t>(r.range(1, 10));
  g_delay.store(static_cast<uint32_t>(r.pick({0, 1, 1, 2})));
  if (r.chance(1, 4)) w.sinks[0]->slow_us.store(static_cast<uint32_t>(r.pick({5, 30})));
  recorder().clear();
  quill::Backend::start(w.bo);
  struct T
  {
    std::thread th;
    std::vector<Issue> issues;
  };
  std::vector<T> ts(nt);
  for (uint32_t t = 0; t < nt; ++t)
  {
    uint64_t tseed = mix(r.next(), t);
    uint32_t n = static_cast<uint32_t>(r.chance(1, 8) ? r.range(0, 3) : r.range(5, 120));
    ts[t].th = std::thread([&w, &ts, t, tseed, n]
                           {
                             Rng tr{tseed};
                             for (uint32_t s = 0; s < n; ++s)
                             {
                               uint16_t li = static_cast<uint16_t>(tr.below(w.loggers.size()));
                               issue_std(ts[t].issues, w.loggers[li].lg, li, quill::LogLevel::Info, t + 1, s, draw_len(tr));
                               if (tr.chance(1, 16)) jitter(tr, 2);
                               if (tr.chance(1, 60)) w.loggers[li].lg->flush_log(tr.chance(1, 2) ? 100 : 0);
                             }
                           });
  }
  // one scenario in four: the backend is stopped and started again while the threads are still logging (statements
  // logged meanwhile wait in their queues; threads that existed before the restart are served by the new backend run)
  uint32_t restarts = 0;
  if (r.chance(1, 4))
  {
    uint32_t const nr = static_cast<uint32_t>(r.range(1, 3));
    for (uint32_t k = 0; k < nr; ++k)
    {
      std::this_thread::sleep_for(std::chrono::microseconds(r.range(50, 1500)));
      quill::Backend::stop();
      std::this_thread::sleep_for(std::chrono::microseconds(r.below(300)));
      quill::Backend::start(w.bo);
      ++restarts;
    }
  }
  for (auto& t : ts) t.th.join();
  quill::Backend::stop();
  g_delay.store(0);
  stat_add("deliver_backend_restarts_while_threads_log", restarts);
  std::vector<Issue> all;
  for (auto& t : ts) all.insert(all.end(), t.issues.begin(), t.issues.end());
  auto evs = recorder().snapshot();
  DeliverOpts dopts;
  if (g_label == "C20") dopts.prop = "C20"; // mode F: every thread exits with statements possibly still queued
  bool ok = check_delivery(w, all, evs, dopts, "deliver_F");
  uint64_t allocs = 0, blocks = 0;
  for (auto const& n : recorder().notes_snapshot())
  {
    if (n.second.find("Allocated a new SPSC queue") != std::string::npos) ++allocs;
    if (n.second.find("blocking occurrences") != std::string::npos) ++blocks;
  }
  stat_add("deliver_scenarios");
  if (w.tsc_mask) stat_add("deliver_scenarios_with_tsc_loggers");
  stat_add("statements_issued", static_cast<long long>(all.size()));
  stat_add("queue_reallocations_reported", static_cast<long long>(allocs));
  stat_add("blocking_reports", static_cast<long long>(blocks));
  if (allocs || blocks || w.bo.transit_events_hard_limit <= 8)
    stat_sig("deliver_sigs", std::string{"F/"} + std::to_string(w.bo.transit_events_hard_limit) + "/" + std::to_string(w.bo.transit_events_soft_limit) + "/" + std::to_string(w.bo.transit_event_buffer_initial_capacity) + "/" + std::to_string(nt) + "/" + (allocs ? "A" : "-") + (blocks ? "B" : "-"));
  w.teardown_loggers();
  return ok;
}

inline bool deliver_S(Rng& r, uint64_t idx)
{
  World w;
  w.tag = "dS" + std::to_string(idx);
  w.random_backend_options(r);
  if (r.chance(1, 4)) w.user_clock_mask = static_cast<uint32_t>(r.range(1, 31)); // some loggers stamp with a user clock that runs ahead
  make_topology(w, r);
  recorder().clear();
  SRun run{w, r};
  uint32_t const nw = static_cast<uint32_t>(r.range(1, 5));
  for (uint32_t i = 0; i < nw; ++i) run.spawn();
  // schedule policy
  uint32_t const policy = static_cast<uint32_t>(r.below(5)); // 0 uniform, 1 starve backend, 2 poll after every statement, 3 exit before first poll, 4 bursts
  uint32_t const steps = static_cast<uint32_t>(r.range(40, 300));
  uint64_t hard_limit_stops = 0, early_exits = 0, polled_yet = 0, flushes = 0, shrinks = 0, exits = 0;
  bool shrink_ok = true;
  World* wp = &w;
  auto do_log = [&](SW& s)
  {
    uint16_t li = static_cast<uint16_t>(r.below(w.loggers.size()));
    uint32_t len = draw_len(r);
    SW* sp = &s;
    run.run_on(s, [wp, sp, li, len] { issue_std(sp->issues, wp->loggers[li].lg, li, quill::LogLevel::Info, sp->tid, sp->seq++, len); }, "log");
  };
  // steps injected inside the backend's own windows
  uint32_t inject_budget = 200;
  g_inject = [&](int p, void const*, uint64_t)
  {
    if (p == qv::BW_AFTER_READ_QUEUE) return;
    if (!(p == qv::BW_AFTER_CACHE_REFRESH || p == qv::BW_BEFORE_READ_QUEUE || p == qv::BW_AFTER_DECODE_ONE || p == qv::BW_BATCH_NEXT || p == qv::BW_AFTER_POP || p == qv::BW_BEFORE_CLEANUP_CTX ||
          p == qv::UQ_OLD_EMPTY_SEEN || p == qv::UQ_NEXT_SEEN || p == qv::UQ_BEFORE_DELETE)) return;
    if (!inject_budget || !r.chance(1, p == qv::UQ_OLD_EMPTY_SEEN ? 12 : 6)) return;
    --inject_budget;
    auto idle = run.idle_workers();
    if (idle.empty()) return;
    ++run.injected;
    run.note('i', p);
    SW& iw = *idle[r.below(idle.size())];
    do_log(iw);
    if (!kBounded && p == qv::UQ_OLD_EMPTY_SEEN && r.chance(1, 2) && !iw.w->parked())
    {
      // ... and, still inside the window between the consumer's "old node is empty" and its look at `next`, the same
      // thread makes its queue switch nodes: a shrink request, or a statement larger than the current node
      if (r.chance(1, 2))
      {
        uint64_t c = r.pick<uint64_t>({64, 256, 1024});
        run.run_on(iw, [c] { Fe::shrink_thread_local_queue(c); }, "shrink");
        ++shrinks;
      }
      else
      {
        uint16_t li = static_cast<uint16_t>(r.below(w.loggers.size()));
        uint32_t const len = static_cast<uint32_t>(std::min<size_t>(kMaxPayload, 1200 + r.below(3000))); // larger than the initial node
        SW* sp = &iw;
        run.run_on(iw, [wp, sp, li, len] { issue_std(sp->issues, wp->loggers[li].lg, li, quill::LogLevel::Info, sp->tid, sp->seq++, len); }, "log-big");
      }
    }
  };
  for (uint32_t st = 0; st < steps && !run.failed; ++st)
  {
    uint64_t x = r.below(100);
    uint32_t poll_w = policy == 1 ? 3 : policy == 2 ? 50 : policy == 3 ? (st < steps / 2 ? 0 : 40) : 25;
    if (x < poll_w)
    {
      run.poll();
      ++polled_yet;
      continue;
    }
    auto parked = run.parked_workers();
    if (!parked.empty() && x < poll_w + 10)
    {
      run.resume(*parked[r.below(parked.size())]);
      continue;
    }
    auto idle = run.idle_workers();
    if (x >= 92 && x < 96 && !idle.empty())
    {
      // a flush request travels through the queues like a statement; when it is processed the backend also reclaims
      // the contexts of exited threads (which may still have decoded statements buffered)
      SW& s = *idle[r.below(idle.size())];
      uint16_t li = static_cast<uint16_t>(r.below(w.loggers.size()));
      ++flushes;
      run.run_on(s, [wp, li] { tl_control_op = true; wp->loggers[li].lg->flush_log(0); tl_control_op = false; }, "flush_log");
      continue;
    }
    if (!kBounded && x >= 89 && x < 92 && !idle.empty())
    {
      // shrink request on the caller's own queue: must take effect at once (capacity reported for that thread) and
      // lose nothing; the backend follows when it switches nodes
      SW& s = *idle[r.below(idle.size())];
      bool* okp = &shrink_ok;
      uint64_t c = r.pick<uint64_t>({64, 256, 1024, 4096, 100000});
      ++shrinks;
      run.run_on(s, [c, okp]
                 {
                   size_t const before = Fe::get_thread_local_queue_capacity();
                   Fe::shrink_thread_local_queue(c);
                   size_t const after = Fe::get_thread_local_queue_capacity();
                   size_t want = 1;
                   while (want < c) want <<= 1;
                   bool const valid = c <= before / 2;
                   if ((valid && after != want) || (!valid && after != before))
                   {
                     violation("C20", "shrink-request-did-not-take-effect", J{}.unum("before", before).unum("requested", c).unum("after", after).str("scenario", "deliver_S"));
                     *okp = false;
                   }
                 },
                 "shrink");
      continue;
    }
    if (x >= 96 && !idle.empty())
    {
      // a thread exits (possibly with statements still queued, possibly before the backend has polled at all)
      SW& s = *idle[r.below(idle.size())];
      if (!polled_yet) ++early_exits;
      ++exits;
      run.exit_worker(s);
      if (r.chance(2, 3)) run.spawn();
      continue;
    }
    if (idle.empty())
    {
      run.poll();
      ++polled_yet;
      continue;
    }
    SW& s = *idle[r.below(idle.size())];
    uint32_t burst = policy == 4 ? static_cast<uint32_t>(r.range(1, 12)) : 1;
    for (uint32_t b = 0; b < burst && !s.w->parked(); ++b) do_log(s);
  }
  g_inject = nullptr;
  if (policy == 3 && r.chance(1, 2))
  {
    // every thread exits before the drain
    for (auto* s : run.idle_workers()) run.exit_worker(*s);
  }
  bool ok = run.drain("deliver_S");
  if (ok)
  {
    auto evs = recorder().snapshot();
    DeliverOpts dopts;
    // run for C20 (--label C20): a loss in a scenario with thread exits or shrink requests is a C20 violation
    if (g_label == "C20" && (shrinks || exits)) dopts.prop = "C20";
    ok = check_delivery(w, run.all_issues(), evs, dopts, "deliver_S");
    run.finish_workers();
    run.poll();
  }
  (void)hard_limit_stops;
  stat_add("deliver_scenarios");
  if (w.user_clock_mask) stat_add("deliver_scenarios_with_user_clock_loggers");
  stat_add("statements_issued", static_cast<long long>(run.all_issues().size()));
  stat_add("mode_s_polls", static_cast<long long>(run.polls));
  stat_add("mode_s_injected_ops_inside_backend_windows", static_cast<long long>(run.injected));
  stat_add("mode_s_blocked_parks", static_cast<long long>(run.parks_seen));
  stat_add("threads_exited_before_first_poll", static_cast<long long>(early_exits));
  stat_add("flush_requests_interleaved", static_cast<long long>(flushes));
  stat_add("shrink_requests_interleaved", static_cast<long long>(shrinks));
  stat_sig("deliver_sigs", "S/" + std::to_string(run.sig_hash));
  w.teardown_loggers();
  return ok && shrink_ok && !run.failed;
}
} // namespace e2e
