// e2e harness: frontend threads + backend + recording sinks; scenario family and mode chosen on the command line,
// scenarios drawn from the PRNG. One process = one family, one mode, one queue type (compile time), many scenarios.
#include "e2e/fam_deliver.h"
#include "e2e/fam_flush.h"
#if __has_include("e2e/fam_more.h")
  #include "e2e/fam_more.h"
#endif

#include <filesystem>
#include <sys/syscall.h>
#include <thread>
#include <time.h>
#include <unistd.h>

using namespace e2e;

int main(int argc, char** argv)
{
  Args a{argc, argv};
  std::string const family = a.s("family", "deliver");
  std::string const mode = a.s("mode", "F");
  uint64_t const seed = a.u("seed", 1);
  uint64_t const scenarios = a.u("scenarios", 50);
  g_dir = a.s("dir", ".");
  g_seed = seed;
  g_label = a.s("label", "");
  g_mode_s = (mode == "S");
  quill::verif::g_hook.store(hook);
  if (g_mode_s) g_virtual.store(true);
  if (g_mode_s) vf::g_clock_read_hook = &clock_read_hook;
  Rng r{mix(seed, std::hash<std::string>{}(family + mode))};
  uint64_t done = 0;
  bool ok = true;
  // scenario watchdog (real monotonic clock, read with a raw system call: clock_gettime is interposed): a scenario
  // normally takes milliseconds; one that has not finished after 300 s ends the process with exit status 124, which
  // the driver treats exactly like its own per-job timeout (the job is re-run once, alone, before a hang is reported).
  // It only makes a hang cost minutes instead of the driver's whole job budget.
  static std::atomic<long> scen_started{0};
  static std::atomic<uint64_t> scen_index{0};
  auto real_mono_s = []
  {
    timespec ts{};
    syscall(SYS_clock_gettime, CLOCK_MONOTONIC, &ts);
    return static_cast<long>(ts.tv_sec);
  };
  scen_started.store(real_mono_s());
  std::thread([real_mono_s, family, mode]
              {
                for (;;)
                {
                  timespec d{5, 0};
                  nanosleep(&d, nullptr);
                  if (real_mono_s() - scen_started.load() > 300)
                  {
                    emit(J{}.str("k", "hang").str("family", family).str("mode", mode).unum("scenario", scen_index.load()).unum("limit_s", 300).done());
                    fflush(stdout);
                    _exit(124);
                  }
                }
              })
    .detach();
  for (uint64_t i = 0; i < scenarios && ok; ++i)
  {
    scen_index.store(i);
    scen_started.store(real_mono_s());
    Rng sr{mix(r.next(), i)};
    if (family == "deliver") ok = g_mode_s ? deliver_S(sr, i) : deliver_F(sr, i);
    else if (family == "flush") ok = g_mode_s ? flush_S(sr, i) : flush_F(sr, i);
    else if (family == "order") ok = g_mode_s ? order_S(sr, i) : order_F(sr, i);
#if __has_include("e2e/fam_more.h")
    else if (run_more_family(family, sr, i, ok)) {}
#endif
    else
    {
      fprintf(stderr, "unknown family %s\n", family.c_str());
      return 2;
    }
    ++done;
  }
  {
    std::lock_guard<std::mutex> g{g_stats_mu};
    g_stats.add("scenarios_run", static_cast<long long>(done));
    for (int p = 0; p < 64; ++p)
      if (uint64_t n = g_hook_counts[p].load()) g_stats.add("hook_" + std::to_string(p), static_cast<long long>(n));
    g_stats.flush();
  }
  sample(J{}.str("harness", "e2e").str("family", family).str("mode", mode).str("queue", kQueueName).unum("cap", E2E_CAP).unum("seed", seed).unum("scenarios", done));
  end_ok();
  fflush(stdout);
  // a violating scenario may leave threads parked inside quill: leave without running destructors then
  if (!ok) _exit(0);
  return 0;
}
