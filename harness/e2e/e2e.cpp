// e2e harness: frontend threads + backend + recording sinks; scenario family and mode chosen on the command line,
// scenarios drawn from the PRNG. One process = one family, one mode, one queue type (compile time), many scenarios.
#include "e2e/fam_deliver.h"
#include "e2e/fam_flush.h"
#if __has_include("e2e/fam_more.h")
  #include "e2e/fam_more.h"
#endif

#include <filesystem>

using namespace e2e;

int main(int argc, char** argv)
{
  Args a{argc, argv};
  std::string const family = a.s("family", "deliver");
  std::string const mode = a.s("mode", "F");
  uint64_t const seed = a.u("seed", 1);
  uint64_t const scenarios = a.u("scenarios", 50);
  g_dir = a.s("dir", ".");
  g_seed = seed;
  g_label = a.s("label", "");
  g_mode_s = (mode == "S");
  quill::verif::g_hook.store(hook);
  if (g_mode_s) g_virtual.store(true);
  Rng r{mix(seed, std::hash<std::string>{}(family + mode))};
  uint64_t done = 0;
  bool ok = true;
  for (uint64_t i = 0; i < scenarios && ok; ++i)
  {
    Rng sr{mix(r.next(), i)};
    if (family == "deliver") ok = g_mode_s ? deliver_S(sr, i) : deliver_F(sr, i);
    else if (family == "flush") ok = g_mode_s ? flush_S(sr, i) : flush_F(sr, i);
    else if (family == "order") ok = g_mode_s ? order_S(sr, i) : order_F(sr, i);
#if __has_include("e2e/fam_more.h")
    else if (run_more_family(family, sr, i, ok)) {}
#endif
    else
    {
      fprintf(stderr, "unknown family %s\n", family.c_str());
      return 2;
    }
    ++done;
  }
  {
    std::lock_guard<std::mutex> g{g_stats_mu};
    g_stats.add("scenarios_run", static_cast<long long>(done));
    for (int p = 0; p < 64; ++p)
      if (uint64_t n = g_hook_counts[p].load()) g_stats.add("hook_" + std::to_string(p), static_cast<long long>(n));
    g_stats.flush();
  }
  sample(J{}.str("harness", "e2e").str("family", family).str("mode", mode).str("queue", kQueueName).unum("cap", E2E_CAP).unum("seed", seed).unum("scenarios", done));
  end_ok();
  fflush(stdout);
  // a violating scenario may leave threads parked inside quill: leave without running destructors then
  if (!ok) _exit(0);
  return 0;
}
