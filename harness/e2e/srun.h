// Mode S scenario context: workers, the manual backend on the scheduler thread, drain-with-progress-verdicts.
#pragma once
#include "e2e/core.h"

namespace e2e
{
inline quill::ManualBackendWorker* g_manual = nullptr;

struct SW
{
  std::unique_ptr<SWorker> w;
  uint32_t tid;
  uint32_t seq{0};
  std::vector<Issue> issues;
  bool exited{false};
  uint64_t pending_since_idle{0}; // idle-cycle counter value when the pending op was posted
  std::string pending_what;
};

struct SRun
{
  World& world;
  Rng& r;
  std::vector<std::unique_ptr<SW>> ws;
  uint32_t next_tid{1};
  uint64_t polls{0}, injected{0}, parks_seen{0};
  std::string sig; // schedule signature (hash input)
  uint64_t sig_hash{1469598103934665603ull};
  bool failed{false};
  uint64_t last_evs{0}, last_idle{0}, polls_without_progress{0};

  SRun(World& w, Rng& rr) : world(w), r(rr)
  {
    if (!g_manual) g_manual = quill::Backend::acquire_manual_backend_worker();
    g_manual->init(world.bo);
  }
  ~SRun()
  {
    g_inject = nullptr;
    // after a violation a worker may still be parked inside quill: leak it instead of joining it
    for (auto& s : ws)
      if (s && !s->exited && s->w && s->w->parked()) (void)s->w.release();
  }

  void note(char actor, int what)
  {
    sig_hash = (sig_hash ^ static_cast<uint64_t>(actor * 131 + what)) * 1099511628211ull;
  }

  SW& spawn()
  {
    auto s = std::make_unique<SW>();
    s->tid = next_tid++;
    s->w = std::make_unique<SWorker>(s->tid);
    ws.push_back(std::move(s));
    return *ws.back();
  }
  std::vector<SW*> idle_workers()
  {
    std::vector<SW*> v;
    for (auto& s : ws)
      if (!s->exited && !s->w->parked()) v.push_back(s.get());
    return v;
  }
  std::vector<SW*> parked_workers()
  {
    std::vector<SW*> v;
    for (auto& s : ws)
      if (!s->exited && s->w->parked()) v.push_back(s.get());
    return v;
  }

  // run an operation on worker s (must be idle); returns true if it completed, false if it parked
  bool run_on(SW& s, std::function<void()> f, char const* what)
  {
    note('w', static_cast<int>(s.tid));
    auto st = s.w->run(std::move(f));
    if (st == SWorker::PARKED)
    {
      ++parks_seen;
      s.pending_since_idle = g_idle_cycles.load();
      s.pending_what = what;
      return false;
    }
    return true;
  }
  bool resume(SW& s)
  {
    note('r', static_cast<int>(s.tid));
    return s.w->resume() != SWorker::PARKED;
  }
  void poll()
  {
    note('b', 0);
    ++polls;
    g_manual->poll_one();
  }
  void exit_worker(SW& s)
  {
    note('x', static_cast<int>(s.tid));
    s.w->exit_thread();
    s.exited = true;
  }

  // a worker still waiting although the backend has been idle with everything empty `limit` times: which property
  // that violates depends on what it is waiting for
  void report_stuck(SW& s, uint64_t idles, char const* family)
  {
    char const* prop = "C09";
    char const* key = "blocked-call-never-resumes-with-idle-backend";
    if (s.pending_what == "flush_log") { prop = "C06"; key = "flush-never-returns-with-idle-backend"; }
    else if (s.pending_what == "remove_logger_blocking") { prop = "C17"; key = "remove-logger-blocking-never-returns-with-idle-backend"; }
    else if (s.pending_what == "init_backtrace" || s.pending_what == "flush_backtrace") { prop = "C08"; key = "control-request-never-accepted-with-idle-backend"; }
    violation(prop, key, J{}.unum("tid", s.tid).str("op", s.pending_what).unum("backend_idle_cycles_since_call", idles).str("family", family).raw("cfg", world.describe()));
  }

  // livelock verdict (logical): the backend has polled 30000 times, nothing reached a sink and it never went idle. Also
  // reported for the property a still-parked caller belongs to (it waits for something the backend will never consume).
  bool no_progress{false};
  void report_no_progress(char const* family)
  {
    no_progress = true;
    failed = true;
    violation("C10", "backend-makes-no-progress", J{}.unum("polls_without_progress", polls_without_progress).unum("notifier_messages", recorder().notes.size()).str("last_note", recorder().notes.empty() ? "" : recorder().notes.back().second.substr(0, 200)).str("family", family).raw("cfg", world.describe()));
    for (auto& s : ws)
    {
      if (s->exited || !s->w->parked()) continue;
      char const* prop = nullptr;
      char const* key = nullptr;
      if (s->pending_what.rfind("log", 0) == 0 || s->pending_what == "probe") { prop = "C09"; key = "blocked-call-never-resumes-backend-does-not-consume-what-is-ahead"; }
      else if (s->pending_what == "flush_log") { prop = "C06"; key = "flush-never-returns-backend-makes-no-progress"; }
      else if (s->pending_what == "remove_logger_blocking") { prop = "C17"; key = "remove-logger-blocking-never-returns-backend-makes-no-progress"; }
      if (prop) violation(prop, key, J{}.unum("tid", s->tid).str("op", s->pending_what).unum("polls_without_progress", polls_without_progress).str("family", family).raw("cfg", world.describe()));
    }
  }

  // Let one parked worker finish its operation: time passes, the backend polls, the worker retries.
  // Same logical progress verdict as drain().
  bool wait_for(SW& s, char const* family, uint64_t limit = 1000)
  {
    uint64_t const grace_ns = static_cast<uint64_t>(world.bo.log_timestamp_ordering_grace_period.count()) * 1000ull;
    while (s.w->parked())
    {
      vclock_jump(grace_ns + 10);
      uint64_t const idle_now = g_idle_cycles.load();
      uint64_t const evs_now = recorder().evs.size();
      if (evs_now != last_evs || idle_now != last_idle) { last_evs = evs_now; last_idle = idle_now; polls_without_progress = 0; }
      else if (++polls_without_progress > 30000)
      {
        report_no_progress(family);
        return false;
      }
      poll();
      if (resume(s)) return true;
      uint64_t idles = g_idle_cycles.load() - s.pending_since_idle;
      if (idles > limit)
      {
        report_stuck(s, idles, family);
        failed = true;
        return false;
      }
    }
    return true;
  }

  // End of scenario: let every parked worker finish and drain everything.
  // Progress verdicts are logical: a worker still parked in the blocked-retry / flush-wait loop after the backend has
  // reported "all queues and buffers empty" `limit` consecutive times is stuck (nothing is ahead of it).
  bool drain(char const* family, uint64_t limit = 1000)
  {
    uint64_t const grace_ns = static_cast<uint64_t>(world.bo.log_timestamp_ordering_grace_period.count()) * 1000ull;
    for (uint64_t round = 0; round < 2000000; ++round)
    {
      vclock_jump(grace_ns + 10);
      bool any_parked = false;
      for (auto& s : ws)
      {
        if (s->exited || !s->w->parked()) continue;
        if (!resume(*s))
        {
          any_parked = true;
          uint64_t idles = g_idle_cycles.load() - s->pending_since_idle;
          if (idles > limit)
          {
            report_stuck(*s, idles, family);
            failed = true;
            return false;
          }
        }
      }
      uint64_t const idle_before = g_idle_cycles.load();
      // livelock verdict (logical): the backend keeps polling, nothing reaches a sink and it never goes idle
      uint64_t const evs_now = recorder().evs.size();
      if (evs_now != last_evs || idle_before != last_idle) { last_evs = evs_now; last_idle = idle_before; polls_without_progress = 0; }
      else if (++polls_without_progress > 30000)
      {
        report_no_progress(family);
        return false;
      }
      poll();
      if (!any_parked && g_idle_cycles.load() != idle_before)
      {
        // one more poll to let cleanup run, then done
        poll();
        return true;
      }
    }
    violation("C03", "drain-did-not-converge", J{}.str("family", family).raw("cfg", world.describe()));
    failed = true;
    return false;
  }

  std::vector<Issue> all_issues() const
  {
    std::vector<Issue> v;
    for (auto const& s : ws) v.insert(v.end(), s->issues.begin(), s->issues.end());
    return v;
  }

  void finish_workers()
  {
    for (auto& s : ws)
      if (!s->exited) exit_worker(*s);
  }
};
} // namespace e2e
