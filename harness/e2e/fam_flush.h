// family flush (C06): flush_log() returns only after earlier statements are written and flushed
// family order (C05): global timestamp order when enqueues respect the grace period
#pragma once
#include "e2e/fam_deliver.h"

#include <fstream>

namespace e2e
{
inline std::string g_dir; // scratch directory (--dir)

// index of a sink-event snapshot
struct EvIndex
{
  std::map<std::tuple<uint32_t, uint32_t, uint32_t>, uint64_t> write_g; // (sink idx, tid, seq) -> ticket of the write
  std::map<uint32_t, std::vector<uint64_t>> flush_g;                   // sink idx -> tickets of flushes (ascending)
  EvIndex(World const& w, std::vector<SinkEv> const& evs)
  {
    for (auto const& e : evs)
    {
      if (e.sink < w.sink_id_base || e.sink >= w.sink_id_base + w.sinks.size()) continue;
      uint32_t si = w.sink_index_of(e.sink);
      if (e.kind == 'f') flush_g[si].push_back(e.g);
      else if (e.kind == 'w')
      {
        Parsed p = parse_msg(e.msg);
        if (p.ok) write_g.emplace(std::make_tuple(si, p.tid, p.seq), e.g);
      }
    }
  }
};

// The check the flushing thread runs immediately after flush_log() returned (backend still running).
// own: the caller's statements; others: statements of other threads with return ticket < g0 (only demanded when
// timestamp ordering is enabled).
inline bool check_after_flush(World const& w, std::vector<Issue const*> const& must, uint32_t flusher_tid, uint64_t g0, std::string const& file_path,
                              int file_logger, char const* scen, bool first_time_logger_involved, int faulty_flush_sink = -1)
{
  auto evs = recorder().snapshot();
  EvIndex ix{w, evs};
  std::string file_content;
  bool file_read = false;
  for (Issue const* is : must)
  {
    if (is->res != 1 || is->kind != 0) continue;
    LoggerDef const& L = w.loggers[is->logger];
    for (uint32_t si : L.sinks)
    {
      auto it = ix.write_g.find(std::make_tuple(si, is->tid, is->seq));
      bool const own = is->tid == flusher_tid;
      if (it == ix.write_g.end())
      {
        violation("C06", own ? "own-statement-not-written-when-flush-returned" : "earlier-statement-of-other-thread-not-written-when-flush-returned",
                  J{}.unum("flusher_tid", flusher_tid).unum("tid", is->tid).unum("seq", is->seq).unum("sink", si).unum("stmt_return_ticket", is->g_ret).unum("flush_call_ticket", g0).boolean("first_time_logger", first_time_logger_involved).str("scenario", scen).raw("cfg", w.describe()));
        return false;
      }
      auto const& fl = ix.flush_g[si];
      // a sink scripted to throw from flush_sink() once records no flush event for that call: it is not demanded of
      // it, but every OTHER sink must still be flushed (a throwing flush must not hide the flush of the sinks after it)
      if (static_cast<int>(si) != faulty_flush_sink && std::upper_bound(fl.begin(), fl.end(), it->second) == fl.end())
      {
        violation("C06", "sink-not-flushed-after-write-when-flush-returned",
                  J{}.unum("flusher_tid", flusher_tid).unum("tid", is->tid).unum("seq", is->seq).unum("sink", si).unum("write_ticket", it->second).unum("flushes_seen", fl.size()).str("scenario", scen).raw("cfg", w.describe()));
        return false;
      }
    }
    if (file_logger >= 0 && is->logger == file_logger)
    {
      if (!file_read)
      {
        std::ifstream in(file_path, std::ios::binary);
        file_content.assign((std::istreambuf_iterator<char>(in)), std::istreambuf_iterator<char>());
        file_read = true;
      }
      std::string needle = std::to_string(is->tid) + "|" + std::to_string(is->seq) + "|" + std::to_string(is->len) + "|" + payload(is->tid, is->seq, is->len) + "\n";
      if (file_content.find(needle) == std::string::npos)
      {
        violation("C06", "statement-not-readable-from-file-when-flush-returned",
                  J{}.unum("flusher_tid", flusher_tid).unum("tid", is->tid).unum("seq", is->seq).unum("file_bytes", file_content.size()).str("scenario", scen).raw("cfg", w.describe()));
        return false;
      }
    }
  }
  return true;
}

struct SharedIssues
{
  // append-only per-thread logs readable by other threads: entries below `n` are complete
  std::vector<Issue> v;
  std::atomic<size_t> n{0};
  explicit SharedIssues(size_t cap) { v.resize(cap); }
  void push(Issue const& is)
  {
    size_t i = n.load(std::memory_order_relaxed);
    if (i >= v.size()) return;
    v[i] = is;
    n.store(i + 1, std::memory_order_release);
  }
};

inline bool flush_F(Rng& r, uint64_t idx)
{
  World w;
  w.tag = "fF" + std::to_string(idx);
  w.random_backend_options(r);
  if (r.chance(2, 3)) w.bo.log_timestamp_ordering_grace_period = std::chrono::microseconds{r.pick({1, 50, 1000})};
  // some loggers stamp with a user clock that runs a day ahead: flush_log() through them (and after statements
  // through them) must still return with the caller's own statements written. The cross-thread clause is only
  // demanded between system-clock loggers (the property limits it to system / TSC clocks).
  if (r.chance(1, 4)) w.user_clock_mask = static_cast<uint32_t>(r.range(1, 15));
  // one scenario in five stamps with rdtsc (the library default) on EVERY logger, file logger included: the property
  // names the TSC clock for the cross-thread clause. One clock source per scenario, a grace period well above any
  // cross-core TSC skew, and no resynchronisation of the backend's RdtscClock while the scenario runs (as in order_F).
  bool const tsc = !w.user_clock_mask && r.chance(1, 4);
  if (tsc)
  {
    w.tsc_mask = 0xffffffffu;
    w.bo.rdtsc_resync_interval = std::chrono::hours{1};
    w.bo.log_timestamp_ordering_grace_period = std::chrono::microseconds{r.pick({50, 1000})};
  }
  make_topology(w, r, 3, 4);
  // a real file sink on an extra logger
  std::string const file_path = g_dir + "/" + w.tag + ".log";
  int file_logger = -1;
  {
    quill::FileSinkConfig fc;
    fc.set_open_mode('w');
    // every file sink configuration flushes its stdio buffer when the sink is flushed: also with fsync enabled and
    // throttled by a minimum interval (only the fsync may be skipped, the data must still be readable), and with a
    // small or a large write buffer
    if (r.chance(1, 3))
    {
      fc.set_fsync_enabled(true);
      fc.set_minimum_fsync_interval(std::chrono::milliseconds{r.pick({0, 1, 5000})});
    }
    if (r.chance(1, 3)) fc.set_write_buffer_size(r.pick<uint64_t>({4096, 1u << 20}));
    // ... and with a before_write callback installed (it returns the statement unchanged)
    quill::FileEventNotifier fen;
    if (r.chance(1, 3)) fen.before_write = [](std::string_view m) { return std::string{m}; };
    auto fs_sink = Fe::create_or_get_sink<quill::FileSink>(file_path, fc, fen);
    LoggerDef d;
    d.name = w.tag + "_zfile"; // sorts after the other loggers: its sink is flushed after theirs
    d.lg = Fe::create_or_get_logger(d.name, fs_sink, quill::PatternFormatterOptions{"%(message)"}, tsc ? quill::ClockSourceType::Tsc : quill::ClockSourceType::System);
    d.tsc = tsc;
    d.lg->set_log_level(quill::LogLevel::TraceL3);
    file_logger = static_cast<int>(w.loggers.size());
    w.loggers.push_back(d); // no recording sinks
  }
  // (a thread's statement queued behind one of its own future-stamped user-clock statements waits for that one, so in
  // scenarios with user-clock loggers only the caller's own statements are demanded)
  bool const ordering = w.bo.log_timestamp_ordering_grace_period.count() != 0 && w.user_clock_mask == 0;
  int faulty_flush_sink = -1;
  if (r.chance(1, 3))
  {
    faulty_flush_sink = static_cast<int>(r.below(w.sinks.size()));
    w.sinks[faulty_flush_sink]->throw_on_flush.store(static_cast<int64_t>(r.below(12)));
  }
  uint32_t const nt = static_cast<uint32_t>(r.range(2, 6));
  g_delay.store(static_cast<uint32_t>(r.pick({0, 1, 2})));
  recorder().clear();
  quill::Backend::start(w.bo);
  std::vector<std::unique_ptr<SharedIssues>> logs;
  for (uint32_t t = 0; t < nt; ++t) logs.push_back(std::make_unique<SharedIssues>(400));
  std::atomic<bool> bad{false};
  std::atomic<uint64_t> flushes{0}, checked_own{0}, checked_others{0};
  std::vector<std::thread> ths;
  for (uint32_t t = 0; t < nt; ++t)
  {
    uint64_t tseed = mix(r.next(), t);
    bool late_starter = r.chance(1, 3);
    ths.emplace_back([&, t, tseed, late_starter]
                     {
                       Rng tr{tseed};
                       std::vector<Issue> scratch;
                       if (late_starter) std::this_thread::sleep_for(std::chrono::microseconds(tr.below(300)));
                       uint32_t seq = 0;
                       uint32_t rounds = static_cast<uint32_t>(tr.range(1, 8));
                       for (uint32_t rd = 0; rd < rounds && !bad.load(); ++rd)
                       {
                         uint32_t k = static_cast<uint32_t>(tr.range(0, 12));
                         for (uint32_t i = 0; i < k && seq < 380; ++i)
                         {
                           uint16_t li = static_cast<uint16_t>(tr.below(w.loggers.size()));
                           scratch.clear();
                           Issue is = issue_std(scratch, w.loggers[li].lg, li, quill::LogLevel::Info, t + 1, seq++, std::min<uint32_t>(draw_len(tr), 600));
                           logs[t]->push(is);
                         }
                         if (tr.chance(3, 4))
                         {
                           uint16_t li = static_cast<uint16_t>(tr.below(w.loggers.size()));
                           uint64_t const g0 = ticket();
                           w.loggers[li].lg->flush_log(tr.chance(1, 2) ? 100 : 0);
                           flushes.fetch_add(1);
                           std::vector<Issue const*> must;
                           size_t own_n = logs[t]->n.load(std::memory_order_relaxed);
                           for (size_t i = 0; i < own_n; ++i) must.push_back(&logs[t]->v[i]);
                           checked_own.fetch_add(own_n);
                           if (ordering && !w.loggers[li].user_clock)
                           {
                             for (uint32_t o = 0; o < nt; ++o)
                             {
                               if (o == t) continue;
                               size_t on = logs[o]->n.load(std::memory_order_acquire);
                               for (size_t i = 0; i < on; ++i)
                                 if (logs[o]->v[i].g_ret < g0 && !w.loggers[logs[o]->v[i].logger].user_clock)
                                 {
                                   must.push_back(&logs[o]->v[i]);
                                   checked_others.fetch_add(1);
                                 }
                             }
                           }
                           if (!check_after_flush(w, must, t + 1, g0, file_path, file_logger, "flush_F", false, faulty_flush_sink)) bad.store(true);
                         }
                       }
                     });
  }
  for (auto& t : ths) t.join();
  quill::Backend::stop();
  g_delay.store(0);
  stat_add("flush_scenarios");
  if (tsc) stat_add("flush_scenarios_with_tsc_loggers");
  stat_add("flush_calls_checked", static_cast<long long>(flushes.load()));
  stat_add("own_statements_demanded", static_cast<long long>(checked_own.load()));
  stat_add("other_thread_statements_demanded", static_cast<long long>(checked_others.load()));
  if (flushes.load() >= 2) stat_sig("flush_sigs", std::string{"F/"} + std::to_string(nt) + "/" + std::to_string(w.bo.log_timestamp_ordering_grace_period.count()) + "/" + std::to_string(w.bo.transit_events_hard_limit) + "/" + std::to_string(w.bo.sink_min_flush_interval.count()) + "/" + std::to_string(w.sinks.size()));
  w.teardown_loggers();
  std::remove(file_path.c_str());
  return !bad.load();
}

// Mode S: flush calls, first-time loggers and clock jumps placed inside the backend's own windows.
inline bool flush_S(Rng& r, uint64_t idx)
{
  World w;
  w.tag = "fS" + std::to_string(idx);
  w.random_backend_options(r);
  w.bo.log_timestamp_ordering_grace_period = std::chrono::microseconds{r.pick({1, 1, 1000})};
  uint64_t const grace_ns = static_cast<uint64_t>(w.bo.log_timestamp_ordering_grace_period.count()) * 1000ull;
  make_topology(w, r, 3, 3);
  int faulty_flush_sink = -1;
  if (r.chance(1, 3))
  {
    faulty_flush_sink = static_cast<int>(r.below(w.sinks.size()));
    w.sinks[faulty_flush_sink]->throw_on_flush.store(static_cast<int64_t>(r.below(12)));
  }
  recorder().clear();
  SRun run{w, r};
  for (uint32_t i = 0; i < r.range(1, 3); ++i) run.spawn();
  bool bad = false;
  uint64_t flushes = 0, first_time_races = 0, others_demanded = 0;
  World* wp = &w;
  SRun* rp = &run;
  auto do_log = [&](SW& s)
  {
    uint16_t li = static_cast<uint16_t>(r.below(w.loggers.size()));
    uint32_t len = std::min<uint32_t>(draw_len(r), 400);
    SW* sp = &s;
    run.run_on(s, [wp, sp, li, len] { issue_std(sp->issues, wp->loggers[li].lg, li, quill::LogLevel::Info, sp->tid, sp->seq++, len); }, "log");
  };
  auto do_flush = [&](SW& s, bool first_time_involved)
  {
    uint16_t li = static_cast<uint16_t>(r.below(w.loggers.size()));
    SW* sp = &s;
    bool* badp = &bad;
    uint64_t* od = &others_demanded;
    ++flushes;
    run.run_on(s, [wp, rp, sp, li, badp, od, first_time_involved, faulty_flush_sink]
               {
                 uint64_t const g0 = ticket();
                 tl_control_op = true;
                 wp->loggers[li].lg->flush_log(0);
                 tl_control_op = false;
                 // runs on the worker right after flush_log() returned; everything is serialised in mode S
                 std::vector<Issue const*> must;
                 for (auto const& o : rp->ws)
                   for (auto const& is : o->issues)
                     if (o->tid == sp->tid || is.g_ret < g0)
                     {
                       must.push_back(&is);
                       if (o->tid != sp->tid) ++*od;
                     }
                 if (!check_after_flush(*wp, must, sp->tid, g0, "", -1, "flush_S", first_time_involved, faulty_flush_sink)) *badp = true;
               },
               "flush_log");
  };
  uint32_t inject_budget = 40;
  g_inject = [&](int p, void const*, uint64_t)
  {
    if (bad || !inject_budget) return;
    // (the same race is also driven right before a system-clock read of the backend - the pass timestamp is one -
    // a window that lies inside the function that reloads the thread list and has no call-out of its own)
    if ((p == qv::BW_AFTER_CACHE_REFRESH && r.chance(1, 3)) || (p == kClockReadPoint && r.chance(1, 6)))
    {
      // the window between the backend's refresh of its thread list and the pass timestamp:
      // a thread logs for the first time, then an already known thread flushes, then time passes
      --inject_budget;
      ++first_time_races;
      run.note('F', p);
      SW& a = run.spawn();
      do_log(a);
      if (r.chance(1, 2)) do_log(a);
      auto idle = run.idle_workers();
      std::vector<SW*> known;
      for (auto* s : idle) if (s != &a && !s->issues.empty()) known.push_back(s);
      if (!known.empty()) do_flush(*known[r.below(known.size())], true);
      vclock_jump(grace_ns * r.pick({1, 3}) + 5);
      return;
    }
    if ((p == qv::BW_BEFORE_READ_QUEUE || p == qv::BW_AFTER_DECODE_ONE || p == qv::BW_BATCH_NEXT || p == qv::BW_AFTER_POP) && r.chance(1, 10))
    {
      --inject_budget;
      auto idle = run.idle_workers();
      if (idle.empty()) return;
      run.note('i', p);
      SW& s = *idle[r.below(idle.size())];
      if (r.chance(1, 4)) do_flush(s, false); else do_log(s);
      if (r.chance(1, 3)) vclock_jump(grace_ns + 3);
    }
  };
  uint32_t const steps = static_cast<uint32_t>(r.range(30, 200));
  for (uint32_t st = 0; st < steps && !bad && !run.failed; ++st)
  {
    uint64_t x = r.below(100);
    if (x < 30) { run.poll(); continue; }
    if (x < 40) { vclock_jump(r.pick<uint64_t>({1, grace_ns - 1, grace_ns, grace_ns * 3})); continue; }
    auto parked = run.parked_workers();
    if (!parked.empty() && x < 55) { run.resume(*parked[r.below(parked.size())]); continue; }
    auto idle = run.idle_workers();
    if (idle.empty()) { run.poll(); continue; }
    SW& s = *idle[r.below(idle.size())];
    if (x < 65) do_flush(s, false);
    else if (x < 68 && run.ws.size() < 8) run.spawn();
    else do_log(s);
  }
  g_inject = nullptr;
  bool ok = !bad && run.drain("flush_S") && !bad;
  if (ok)
  {
    run.finish_workers();
    run.poll();
  }
  stat_add("flush_scenarios");
  stat_add("flush_calls_checked", static_cast<long long>(flushes));
  stat_add("first_time_logger_races_driven", static_cast<long long>(first_time_races));
  stat_add("other_thread_statements_demanded", static_cast<long long>(others_demanded));
  stat_add("mode_s_polls", static_cast<long long>(run.polls));
  if (flushes) stat_sig("flush_sigs", "S/" + std::to_string(run.sig_hash));
  w.teardown_loggers();
  return ok && !run.failed;
}

// ------------------------------------------------------------------------------------------------ order (C05)
inline bool check_order(World const& w, std::vector<Issue> const& issues, std::vector<SinkEv> const& evs, uint64_t grace_ns, char const* scen,
                        uint64_t& inversions_justified, uint64_t& late_statements)
{
  std::map<std::pair<uint32_t, uint32_t>, Issue const*> by_id;
  for (auto const& is : issues) by_id[{is.tid, is.seq}] = &is;
  // per sink: walk the writes in write order
  std::map<uint32_t, std::pair<uint64_t, std::string>> maxts; // sink -> (max ts so far, id)
  for (auto const& e : evs)
  {
    if (e.kind != 'w' || e.sink < w.sink_id_base || e.sink >= w.sink_id_base + w.sinks.size()) continue;
    Parsed p = parse_msg(e.msg);
    if (!p.ok) continue;
    auto it = by_id.find({p.tid, p.seq});
    if (it == by_id.end()) continue;
    Issue const& b = *it->second;
    // a Tsc logger's timestamp is an rdtsc value converted by the backend: it approximates the system clock; a quarter
    // of the grace period is granted as conversion error (the premise "enqueued within the grace period" is then judged
    // with that much less slack)
    uint64_t const tol = (b.logger < w.loggers.size() && w.loggers[b.logger].tsc) ? grace_ns / 4 : 0;
    // the statement's timestamp must be the clock value read on the calling thread at the start of the call
    if (tol && (e.ts + 100000000ull < b.ts_lo || e.ts > b.clk_ret + 100000000ull))
    {
      // off by more than 100 ms: the backend's RdtscClock failed to synchronise (it says so on stderr; possible on a
      // heavily loaded VM). Nothing about ordering can be concluded from such timestamps: scenario not judged.
      stat_add("order_scenarios_not_judged_rdtsc_clock_unsynchronised");
      return true;
    }
    if (e.ts + tol < b.ts_lo || e.ts > b.clk_ret + tol)
    {
      violation("C05", "timestamp-not-read-during-the-call", J{}.unum("tid", p.tid).unum("seq", p.seq).unum("ts", e.ts).unum("clock_before_call", b.ts_lo).unum("clock_after_call", b.clk_ret).str("scenario", scen).raw("cfg", w.describe()));
      return false;
    }
    // ... at its START: a call that had to wait for room in its queue read the clock before it began to wait
    if (b.clk_first_block)
    {
      stat_add("order_blocked_calls_whose_timestamp_was_judged");
      if (e.ts > b.clk_first_block + tol)
      {
        violation("C05", "timestamp-not-taken-at-the-start-of-the-log-call", J{}.unum("tid", p.tid).unum("seq", p.seq).unum("ts", e.ts).unum("clock_before_call", b.ts_lo).unum("clock_when_the_call_first_found_its_queue_full", b.clk_first_block).unum("clock_after_call", b.clk_ret).str("scenario", scen).raw("cfg", w.describe()));
        return false;
      }
    }
    auto& m = maxts[e.sink];
    if (e.ts < m.first)
    {
      // inversion: legitimate only if b was enqueued later than the grace period after its timestamp
      uint64_t const lateness_upper = b.clk_ret + tol - e.ts; // upper bound of (enqueue instant - timestamp)
      if (lateness_upper <= grace_ns)
      {
        violation("C05", "timestamp-order-violated",
                  J{}.unum("tid", p.tid).unum("seq", p.seq).unum("ts", e.ts).unum("written_after_ts", m.first).str("written_after_id", m.second).unum("enqueue_lateness_upper_bound_ns", lateness_upper).unum("grace_ns", grace_ns).str("scenario", scen).raw("cfg", w.describe()));
        return false;
      }
      ++inversions_justified;
    }
    else
      m = {e.ts, std::to_string(p.tid) + "#" + std::to_string(p.seq)};
  }
  for (auto const& is : issues)
    if (is.res == 1 && is.clk_ret - is.ts_lo > grace_ns) ++late_statements;
  return true;
}

inline bool order_S(Rng& r, uint64_t idx)
{
  World w;
  w.tag = "oS" + std::to_string(idx);
  w.random_backend_options(r);
  w.bo.log_timestamp_ordering_grace_period = std::chrono::microseconds{r.pick({1, 5, 1000})};
  uint64_t const grace_ns = static_cast<uint64_t>(w.bo.log_timestamp_ordering_grace_period.count()) * 1000ull;
  if (r.chance(1, 2))
  {
    // small hard limits so that queues are read late
    w.bo.transit_events_hard_limit = r.pick({1u, 2u, 8u});
    w.bo.transit_events_soft_limit = std::min<size_t>(w.bo.transit_events_soft_limit, w.bo.transit_events_hard_limit);
  }
  make_topology(w, r, 2, 3);
  recorder().clear();
  SRun run{w, r};
  uint32_t const nw = static_cast<uint32_t>(r.range(2, 5));
  for (uint32_t i = 0; i < nw; ++i) run.spawn();
  World* wp = &w;
  uint64_t stalls_below = 0, stalls_above = 0, shrink_chains = 0;
  auto do_log = [&](SW& s, bool stall)
  {
    uint16_t li = static_cast<uint16_t>(r.below(w.loggers.size()));
    uint32_t len = std::min<uint32_t>(draw_len(r), 300);
    SW* sp = &s;
    s.w->stall_after_clock_read = stall;
    run.run_on(s, [wp, sp, li, len] { issue_std(sp->issues, wp->loggers[li].lg, li, quill::LogLevel::Info, sp->tid, sp->seq++, len); }, "log");
  };
  uint32_t inject_budget = 100;
  g_inject = [&](int p, void const*, uint64_t)
  {
    if (!inject_budget) return;
    if (!(p == qv::BW_AFTER_CACHE_REFRESH || p == qv::BW_BEFORE_READ_QUEUE || p == qv::BW_AFTER_DECODE_ONE || p == qv::BW_BATCH_NEXT || p == qv::BW_AFTER_POP || p == kClockReadPoint)) return;
    if (!r.chance(1, p == kClockReadPoint ? 8 : 5)) return;
    --inject_budget;
    run.note('i', p);
    uint64_t x = p == kClockReadPoint ? 7 : r.below(10); // right before a clock read of the backend: the first-time-logger race
    if (x < 5)
    {
      auto idle = run.idle_workers();
      if (!idle.empty()) do_log(*idle[r.below(idle.size())], false);
    }
    else if (x < 7)
    {
      auto parked = run.parked_workers();
      if (!parked.empty()) run.resume(*parked[r.below(parked.size())]);
    }
    else if (x < 8 && (p == qv::BW_AFTER_CACHE_REFRESH || p == kClockReadPoint) && run.ws.size() < 9)
    {
      SW& a = run.spawn(); // first-time logger inside the refresh/timestamp window ...
      do_log(a, false);
      // ... followed by a later-stamped statement of an already known thread, then time passes
      std::vector<SW*> known;
      for (auto* s : run.idle_workers()) if (s != &a && !s->issues.empty()) known.push_back(s);
      if (!known.empty()) do_log(*known[r.below(known.size())], false);
      vclock_jump(grace_ns + 7);
    }
    else
      vclock_jump(r.pick<uint64_t>({1, grace_ns - 1, grace_ns, grace_ns * 3}));
  };
  uint32_t const steps = static_cast<uint32_t>(r.range(40, 260));
  for (uint32_t st = 0; st < steps && !run.failed; ++st)
  {
    uint64_t x = r.below(100);
    if (x < 28) { run.poll(); continue; }
    if (x < 40)
    {
      uint64_t j = r.pick<uint64_t>({0, grace_ns - 1, grace_ns, grace_ns * 3});
      vclock_jump(j);
      continue;
    }
    auto parked = run.parked_workers();
    if (!parked.empty() && x < 52)
    {
      SW& s = *parked[r.below(parked.size())];
      run.resume(s);
      continue;
    }
    auto idle = run.idle_workers();
    if (idle.empty()) { run.poll(); continue; }
    SW& s = *idle[r.below(idle.size())];
    if (!kBounded && x >= 96)
    {
      // a thread shrinks its queue (once or twice) and at once logs a statement that does not fit the shrunk buffer: its
      // queue is now a chain of buffers with EMPTY ones in the middle and an old statement at the far end; another thread
      // then logs (later timestamp), time passes, the backend polls
      SW* sp = &s;
      uint16_t li = static_cast<uint16_t>(r.below(w.loggers.size()));
      uint32_t const big = static_cast<uint32_t>(r.range(1200, 3000));
      bool const twice = r.chance(1, 2);
      run.run_on(s, [wp, sp, li, big, twice]
                 {
                   Fe::shrink_thread_local_queue(512);
                   if (twice) Fe::shrink_thread_local_queue(256);
                   issue_std(sp->issues, wp->loggers[li].lg, li, quill::LogLevel::Info, sp->tid, sp->seq++, big);
                 },
                 "log");
      ++shrink_chains;
      auto others = run.idle_workers();
      others.erase(std::remove(others.begin(), others.end(), &s), others.end());
      if (!others.empty()) do_log(*others[r.below(others.size())], false);
      vclock_jump(grace_ns * 3);
      run.poll();
      continue;
    }
    bool stall = r.chance(1, 6);
    if (stall) (r.chance(1, 2) ? stalls_below : stalls_above)++;
    do_log(s, stall);
  }
  g_inject = nullptr;
  bool ok = run.drain("order_S");
  uint64_t inv = 0, late = 0;
  if (ok)
  {
    auto evs = recorder().snapshot();
    auto all = run.all_issues();
    ok = check_delivery(w, all, evs, DeliverOpts{"C03"}, "order_S") && check_order(w, all, evs, grace_ns, "order_S", inv, late);
    run.finish_workers();
    run.poll();
  }
  stat_add("order_scenarios");
  stat_add("statements_issued", static_cast<long long>(run.all_issues().size()));
  stat_add("order_inversions_observed_and_justified_by_lateness", static_cast<long long>(inv));
  stat_add("order_late_statements", static_cast<long long>(late));
  stat_add("order_stalls_after_clock_read", static_cast<long long>(stalls_below + stalls_above));
  stat_add("order_shrink_then_oversize_statement_chains", static_cast<long long>(shrink_chains));
  stat_add("mode_s_polls", static_cast<long long>(run.polls));
  stat_sig("order_sigs", "S/" + std::to_string(run.sig_hash));
  w.teardown_loggers();
  return ok && !run.failed;
}

inline bool order_F(Rng& r, uint64_t idx)
{
  World w;
  w.tag = "oF" + std::to_string(idx);
  w.random_backend_options(r);
  // one scenario in three stamps with rdtsc (the library default) on every logger: the ordering gate has to hold for
  // converted timestamps too. One clock source per scenario (two clocks cannot be ordered against each other), the long
  // grace period (a quarter of it is granted as conversion error) and no resynchronisation of the backend's
  // RdtscClock while the scenario runs (a resync may step converted time backwards by the drift it corrects).
  bool const tsc = r.chance(1, 3);
  uint32_t const grace_us = tsc ? 20000u : static_cast<uint32_t>(r.pick({2000, 20000}));
  if (tsc)
  {
    w.tsc_mask = 0xffffffffu;
    w.bo.rdtsc_resync_interval = std::chrono::hours{1};
  }
  w.bo.log_timestamp_ordering_grace_period = std::chrono::microseconds{grace_us};
  uint64_t const grace_ns = grace_us * 1000ull;
  if (r.chance(1, 2))
  {
    w.bo.transit_events_hard_limit = r.pick({1u, 2u, 8u});
    w.bo.transit_events_soft_limit = std::min<size_t>(w.bo.transit_events_soft_limit, w.bo.transit_events_hard_limit);
  }
  make_topology(w, r, 2, 3);
  uint32_t const nt = static_cast<uint32_t>(r.range(2, 8));
  g_delay.store(static_cast<uint32_t>(r.pick({0, 1, 2})));
  recorder().clear();
  quill::Backend::start(w.bo);
  struct T
  {
    std::thread th;
    std::vector<Issue> issues;
  };
  std::vector<T> ts(nt);
  for (uint32_t t = 0; t < nt; ++t)
  {
    uint64_t tseed = mix(r.next(), t);
    ts[t].th = std::thread([&w, &ts, t, tseed, grace_us]
                           {
                             Rng tr{tseed};
                             uint32_t n = static_cast<uint32_t>(tr.range(5, 60));
                             for (uint32_t s = 0; s < n; ++s)
                             {
                               uint16_t li = static_cast<uint16_t>(tr.below(w.loggers.size()));
                               uint64_t x = tr.below(40);
                               tl_stall_us = x == 0 ? grace_us * 3 : x < 3 ? grace_us / 4 : 0;
                               issue_std(ts[t].issues, w.loggers[li].lg, li, quill::LogLevel::Info, t + 1, s, std::min<uint32_t>(draw_len(tr), 300));
                               tl_stall_us = 0;
                               if (tr.chance(1, 6)) std::this_thread::sleep_for(std::chrono::microseconds(tr.below(grace_us / 2)));
                             }
                           });
  }
  for (auto& t : ts) t.th.join();
  quill::Backend::stop();
  g_delay.store(0);
  std::vector<Issue> all;
  for (auto& t : ts) all.insert(all.end(), t.issues.begin(), t.issues.end());
  auto evs = recorder().snapshot();
  uint64_t inv = 0, late = 0;
  bool ok = check_delivery(w, all, evs, DeliverOpts{"C03"}, "order_F") && check_order(w, all, evs, grace_ns, "order_F", inv, late);
  stat_add("order_scenarios");
  stat_add("statements_issued", static_cast<long long>(all.size()));
  stat_add("order_inversions_observed_and_justified_by_lateness", static_cast<long long>(inv));
  stat_add("order_late_statements", static_cast<long long>(late));
  if (w.tsc_mask) stat_add("order_scenarios_with_tsc_loggers");
  if (late || w.bo.transit_events_hard_limit <= 8) stat_sig("order_sigs", std::string{"F/"} + std::to_string(nt) + "/" + std::to_string(grace_us) + "/" + std::to_string(w.bo.transit_events_hard_limit) + "/" + (late ? "L" : "-") + (inv ? "I" : "-"));
  w.teardown_loggers();
  return ok;
}
} // namespace e2e
