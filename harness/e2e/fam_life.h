// family lifecycle (C17): removing / re-creating loggers loses nothing and frees nothing in use; + dispatcher
#pragma once

namespace e2e
{
struct CsvSchema
{
  static constexpr char const* header = "H";
  static constexpr char const* format = "{}|{}|{}|{}";
};

struct Incarnation
{
  std::string name;
  uint32_t gen{0};
  Lg* lg{nullptr};
  std::vector<uint32_t> sinks; // sink pool indices
  bool alive{true};            // may be logged through
  bool removal_requested{false};
  bool removal_completed{false};
  bool csv{false};
  std::vector<std::pair<uint32_t, uint32_t>> issued; // (tid, seq) in issue order (per thread order is derived)
};

struct LifeWorld
{
  std::string tag;
  std::vector<std::shared_ptr<RecSink>> user_ref; // the "user's" reference, may be dropped
  std::vector<uint32_t> sink_ids;                 // recorder ids
  std::vector<std::string> sink_names;
  std::vector<Incarnation> incs;
  quill::BackendOptions bo;
  std::string describe() const { return J{}.str("queue", kQueueName).unum("cap", E2E_CAP).unum("sinks", sink_ids.size()).unum("incarnations", incs.size()).unum("hard", bo.transit_events_hard_limit).unum("soft", bo.transit_events_soft_limit).done(); }
};

inline bool check_lifecycle(LifeWorld const& lw, std::vector<SinkEv> const& evs, char const* scen)
{
  // delivered: (sink pool idx, logger name) -> sequence of (tid, seq) in write order
  std::map<uint32_t, uint32_t> pool_of;
  for (uint32_t i = 0; i < lw.sink_ids.size(); ++i) pool_of[lw.sink_ids[i]] = i;
  std::map<std::pair<uint32_t, std::string>, std::vector<std::pair<uint32_t, uint32_t>>> got;
  std::map<uint32_t, uint32_t> destroyed;
  for (auto const& e : evs)
  {
    auto it = pool_of.find(e.sink);
    if (it == pool_of.end()) continue;
    if (e.kind == 'd') { destroyed[it->second]++; continue; }
    if (e.kind != 'w') continue;
    if (e.msg == "H") continue;
    Parsed p = parse_msg(e.msg);
    if (!p.ok || !p.payload_ok)
    {
      violation("C17", "payload-corrupt", J{}.str("msg", e.msg.substr(0, 80)).str("scenario", scen));
      return false;
    }
    got[{it->second, e.logger}].emplace_back(p.tid, p.seq);
  }
  // expected: all incarnations of a name, in generation order, per sink
  std::map<std::pair<uint32_t, std::string>, std::vector<std::pair<uint32_t, uint32_t>>> want_by_thread_seq;
  for (auto const& inc : lw.incs)
    for (uint32_t s : inc.sinks)
      for (auto const& id : inc.issued) want_by_thread_seq[{s, inc.name}].push_back(id);
  std::set<std::pair<uint32_t, std::string>> keys;
  for (auto& kv : got) keys.insert(kv.first);
  for (auto& kv : want_by_thread_seq) keys.insert(kv.first);
  for (auto const& k : keys)
  {
    auto g = got[k];
    auto wv = want_by_thread_seq[k];
    // per thread sequences must be equal (exactly once, in order)
    std::map<uint32_t, std::vector<uint32_t>> gt, wt;
    for (auto const& id : g) gt[id.first].push_back(id.second);
    for (auto const& id : wv) wt[id.first].push_back(id.second);
    std::set<uint32_t> tids;
    for (auto& kv : gt) tids.insert(kv.first);
    for (auto& kv : wt) tids.insert(kv.first);
    for (uint32_t t : tids)
      if (gt[t] != wt[t])
      {
        auto& a = gt[t];
        auto& b = wt[t];
        size_t i = 0;
        while (i < a.size() && i < b.size() && a[i] == b[i]) ++i;
        char const* key = a.size() < b.size() && std::equal(a.begin(), a.end(), b.begin()) ? "statement-lost-across-logger-removal"
          : b.empty()                                                                      ? "statement-on-a-sink-not-attached-to-its-logger"
                                                                                           : "statement-lost-duplicated-or-reordered";
        violation("C17", key, J{}.unum("sink", k.first).str("logger", k.second).unum("tid", t).unum("first_difference_at", i).unum("delivered", a.size()).unum("expected", b.size()).str("scenario", scen).raw("cfg", lw.describe()));
        return false;
      }
  }
  // sink destruction: destroyed exactly once iff no live (not removal-completed... i.e. not yet freed) logger uses it and the user dropped it
  for (uint32_t i = 0; i < lw.sink_ids.size(); ++i)
  {
    bool referenced = lw.user_ref[i] != nullptr;
    for (auto const& inc : lw.incs)
      if (!inc.removal_requested)
        for (uint32_t s : inc.sinks) if (s == i) referenced = true;
    uint32_t d = destroyed.count(i) ? destroyed[i] : 0;
    if (referenced && d)
    {
      violation("C17", "sink-destroyed-while-still-referenced", J{}.unum("sink", i).unum("destroy_events", d).str("scenario", scen).raw("cfg", lw.describe()));
      return false;
    }
    if (!referenced && d != 1)
    {
      violation("C17", d == 0 ? "unreferenced-sink-not-destroyed-after-logger-removal" : "sink-destroyed-twice", J{}.unum("sink", i).unum("destroy_events", d).str("scenario", scen).raw("cfg", lw.describe()));
      return false;
    }
  }
  return true;
}

inline bool lifecycle_S(Rng& r, uint64_t idx)
{
  World w; // only for SRun / options
  w.tag = "lS" + std::to_string(idx);
  w.random_backend_options(r);
  LifeWorld lw;
  lw.tag = w.tag;
  lw.bo = w.bo;
  uint32_t const ns = static_cast<uint32_t>(r.range(2, 5));
  for (uint32_t i = 0; i < ns; ++i)
  {
    uint32_t id = World::next_sink_id()++;
    lw.sink_names.push_back(lw.tag + "_s" + std::to_string(i));
    auto sp = std::static_pointer_cast<RecSink>(Fe::create_or_get_sink<RecSink>(lw.sink_names.back(), id));
    lw.user_ref.push_back(sp);
    lw.sink_ids.push_back(id);
  }
  recorder().clear();
  SRun run{w, r};
  lw.incs.reserve(1024); // operations parked inside quill keep references into this vector
  LifeWorld* lp = &lw;
  uint32_t const nw = static_cast<uint32_t>(r.range(2, 4));
  for (uint32_t i = 0; i < nw; ++i) run.spawn();
  std::vector<std::string> names;
  for (uint32_t i = 0; i < 3; ++i) names.push_back(lw.tag + "_n" + std::to_string(i));
  std::map<std::string, uint32_t> gen;
  std::set<std::string> retired; // removed without blocking: never re-created in this scenario (documented contract)
  bool ok = true;
  uint64_t removals_with_queued = 0, recreations = 0, blocking_removals = 0, csv_cycles = 0, sink_recreations = 0;
  auto alive_inc = [&](std::string const& n) -> Incarnation*
  {
    for (auto& i : lw.incs) if (i.name == n && i.alive) return &i;
    return nullptr;
  };
  auto name_in_use = [&](std::string const& n)
  {
    for (auto& i : lw.incs) if (i.name == n && !i.removal_completed) return true;
    return false;
  };
  // log calls parked inside a full blocking queue are still IN FLIGHT: removing their logger now would be the
  // application's error (use after remove_logger), so such incarnations are not removed until the call has returned
  std::map<SW*, size_t> inflight_log;
  auto inflight_on = [&](size_t inc_idx)
  {
    for (auto it = inflight_log.begin(); it != inflight_log.end();)
    {
      if (!it->first->w->parked()) it = inflight_log.erase(it);
      else ++it;
    }
    for (auto const& kv : inflight_log) if (kv.second == inc_idx) return true;
    return false;
  };
  auto do_log = [&](SW& s, size_t inc_idx)
  {
    SW* sp = &s;
    uint32_t seq = s.seq++;
    uint32_t len = static_cast<uint32_t>(r.range(0, 60));
    // a blocking queue may park the call: it completes later (always accepted), long after this frame is gone, so the
    // result lives on the heap
    auto rp = std::make_shared<int>(1);
    bool const completed = run.run_on(s, [lp, inc_idx, sp, seq, len, rp]
                                      {
                                        std::vector<Issue> tmp;
                                        *rp = issue_std(tmp, lp->incs[inc_idx].lg, 0, quill::LogLevel::Info, sp->tid, seq, len).res;
                                      },
                                      "log");
    if (!completed) inflight_log[&s] = inc_idx;
    if (*rp == 1) lw.incs[inc_idx].issued.emplace_back(s.tid, seq); // a dropping queue may have refused it
  };
  uint32_t inject_budget = 60;
  g_inject = [&](int p, void const*, uint64_t)
  {
    if (!inject_budget || !ok) return;
    if (!(p == qv::BW_BEFORE_READ_QUEUE || p == qv::BW_AFTER_DECODE_ONE || p == qv::BW_BEFORE_CLEANUP_LOGGERS || p == qv::BW_BEFORE_CLEANUP_CTX || p == qv::BW_AFTER_POP)) return;
    if (!r.chance(1, 5)) return;
    auto idle = run.idle_workers();
    std::vector<size_t> al;
    for (size_t i = 0; i < lw.incs.size(); ++i) if (lw.incs[i].alive) al.push_back(i);
    if (idle.empty() || al.empty()) return;
    --inject_budget;
    run.note('i', p);
    do_log(*idle[r.below(idle.size())], al[r.below(al.size())]);
  };
  uint32_t const steps = static_cast<uint32_t>(r.range(40, 220));
  for (uint32_t st = 0; st < steps && ok && !run.failed; ++st)
  {
    uint64_t x = r.below(100);
    if (x < 22) { run.poll(); continue; }
    auto parked = run.parked_workers();
    if (!parked.empty() && x < 34) { run.poll(); run.resume(*parked[r.below(parked.size())]); continue; }
    auto idle = run.idle_workers();
    if (idle.empty()) { run.poll(); continue; }
    SW& s = *idle[r.below(idle.size())];
    SW* sp = &s;
    std::vector<size_t> al;
    for (size_t i = 0; i < lw.incs.size(); ++i) if (lw.incs[i].alive) al.push_back(i);
    if (x < 45 || al.empty())
    {
      // create a logger under a name from the small pool (only if the name is free)
      std::string const& n = names[r.below(names.size())];
      if (name_in_use(n) || retired.count(n)) { run.poll(); continue; }
      Incarnation inc;
      inc.name = n;
      inc.gen = gen[n]++;
      if (inc.gen) ++recreations;
      std::vector<uint32_t> cand;
      for (uint32_t i = 0; i < ns; ++i) if (lw.user_ref[i]) cand.push_back(i);
      if (cand.empty()) { run.poll(); continue; }
      uint32_t k = static_cast<uint32_t>(r.range(1, std::min<size_t>(3, cand.size())));
      for (uint32_t i = 0; i < k; ++i)
      {
        uint32_t c = cand[r.below(cand.size())];
        if (std::find(inc.sinks.begin(), inc.sinks.end(), c) == inc.sinks.end()) inc.sinks.push_back(c);
      }
      lw.incs.push_back(inc);
      size_t ii = lw.incs.size() - 1;
      bool* okp = &ok;
      run.run_on(s, [lp, ii, okp]
                 {
                   Incarnation& in = lp->incs[ii];
                   std::vector<std::shared_ptr<quill::Sink>> v;
                   for (uint32_t si : in.sinks)
                   {
                     // looking sinks up by name is idempotent: the same object comes back
                     auto again = Fe::create_or_get_sink<RecSink>(lp->sink_names[si], 999999u);
                     if (again.get() != lp->user_ref[si].get())
                     {
                       violation("C17", "create-or-get-sink-returned-a-different-object", J{}.unum("sink", si).str("scenario", "lifecycle_S"));
                       *okp = false;
                     }
                     v.push_back(again);
                   }
                   in.lg = Fe::create_or_get_logger(in.name, std::move(v), quill::PatternFormatterOptions{"%(message)"}, quill::ClockSourceType::System);
                   in.lg->set_log_level(quill::LogLevel::TraceL3);
                   Lg* again = Fe::create_or_get_logger(in.name, std::vector<std::shared_ptr<quill::Sink>>{}, quill::PatternFormatterOptions{"%(message)"}, quill::ClockSourceType::System);
                   if (again != in.lg || Fe::get_logger(in.name) != in.lg)
                   {
                     violation("C17", "create-or-get-logger-not-idempotent", J{}.str("name", in.name).str("scenario", "lifecycle_S"));
                     *okp = false;
                   }
                 },
                 "create_logger");
      continue;
    }
    size_t ii = al[r.below(al.size())];
    if (x < 80) { do_log(s, ii); continue; }
    if (x < 94 && inflight_on(ii)) { run.poll(); continue; }
    if (x < 86)
    {
      // non-blocking removal: nobody logs through it afterwards; the name is not reused
      bool queued = false;
      for (auto const& is : lw.incs[ii].issued) { (void)is; queued = true; }
      if (queued) ++removals_with_queued;
      lw.incs[ii].alive = false;
      lw.incs[ii].removal_requested = true;
      retired.insert(lw.incs[ii].name);
      run.run_on(s, [lp, ii] { Fe::remove_logger(lp->incs[ii].lg); }, "remove_logger");
      continue;
    }
    if (x < 94)
    {
      ++blocking_removals;
      lw.incs[ii].alive = false;
      lw.incs[ii].removal_requested = true;
      bool* okp = &ok;
      run.run_on(s, [lp, ii, okp]
                 {
                   Incarnation& in = lp->incs[ii];
                   size_t const before = Fe::get_number_of_loggers();
                   tl_control_op = true;
                   Fe::remove_logger_blocking(in.lg, 0);
                   tl_control_op = false;
                   in.removal_completed = true;
                   // when it returns the removal has completed
                   if (Fe::get_logger(in.name) != nullptr)
                   {
                     violation("C17", "logger-still-found-after-remove-logger-blocking-returned", J{}.str("name", in.name).str("scenario", "lifecycle_S"));
                     *okp = false;
                   }
                   (void)before;
                 },
                 "remove_logger_blocking");
      (void)sp;
      continue;
    }
    if (x >= 97)
    {
      // a sink name whose previous object is gone (nobody removed a logger in between, so the registry may still hold
      // the expired entry): creating it again gives a fresh object, and from then on lookups by that name are
      // idempotent again (create_or_get and get return that same object)
      bool* okp = &ok;
      std::string const tn = lw.tag + "_tmp" + std::to_string(r.below(2));
      ++sink_recreations;
      run.run_on(s, [tn, okp]
                 {
                   { auto first = Fe::create_or_get_sink<RecSink>(tn, 999990u); }
                   auto second = Fe::create_or_get_sink<RecSink>(tn, 999991u);
                   auto third = Fe::create_or_get_sink<RecSink>(tn, 999992u);
                   std::shared_ptr<quill::Sink> looked_up;
                   bool threw = false;
                   try { looked_up = Fe::get_sink(tn); } catch (std::exception const&) { threw = true; }
                   if (second.get() != third.get() || threw || looked_up.get() != second.get())
                   {
                     violation("C17", "create-or-get-sink-returned-a-different-object", J{}.str("sink_name", tn).boolean("get_sink_threw", threw).boolean("second_create_same_object", second.get() == third.get()).str("scenario", "lifecycle_S: name re-created after its sink expired"));
                     *okp = false;
                   }
                 },
                 "recreate_sink_name");
      continue;
    }
    // the user drops the reference to a sink
    uint32_t si = static_cast<uint32_t>(r.below(ns));
    if (lw.user_ref[si]) lw.user_ref[si].reset();
  }
  g_inject = nullptr;
  ok = ok && !run.failed && run.drain("lifecycle_S");
  if (ok)
  {
    // everything still alive is removed now, then the backend gets idle cycles to clean up
    auto idle = run.idle_workers();
    for (size_t i = 0; i < lw.incs.size() && !idle.empty(); ++i)
      if (lw.incs[i].alive)
      {
        lw.incs[i].alive = false;
        lw.incs[i].removal_requested = true;
        run.run_on(*idle[0], [lp, i] { Fe::remove_logger(lp->incs[i].lg); }, "remove_logger");
      }
    ok = run.drain("lifecycle_S");
    for (int k = 0; k < 4; ++k) run.poll();
    if (ok)
    {
      auto evs = recorder().snapshot();
      ok = check_lifecycle(lw, evs, "lifecycle_S");
    }
    if (ok)
    {
      run.finish_workers();
      run.poll();
    }
  }
  stat_add("lifecycle_scenarios");
  stat_add("lifecycle_incarnations", static_cast<long long>(lw.incs.size()));
  stat_add("lifecycle_recreations_under_same_name", static_cast<long long>(recreations));
  stat_add("lifecycle_blocking_removals", static_cast<long long>(blocking_removals));
  stat_add("lifecycle_nonblocking_removals", static_cast<long long>(removals_with_queued));
  stat_add("lifecycle_sink_names_recreated_after_expiry", static_cast<long long>(sink_recreations));
  (void)csv_cycles;
  if (blocking_removals + removals_with_queued >= 2) stat_sig("lifecycle_sigs", std::to_string(run.sig_hash));
  return ok && !run.failed;
}

// mode F: threads create / log / remove their own loggers over shared sinks, look loggers and sinks up by shared
// names concurrently, and run CsvWriter create-feed-destroy loops; judged by ASan/TSan/asserts and the same oracle.
inline bool lifecycle_F(Rng& r, uint64_t idx)
{
  LifeWorld lw;
  lw.tag = "lF" + std::to_string(idx);
  World w;
  w.random_backend_options(r);
  lw.bo = w.bo;
  uint32_t const ns = static_cast<uint32_t>(r.range(2, 4));
  for (uint32_t i = 0; i < ns; ++i)
  {
    uint32_t id = World::next_sink_id()++;
    lw.sink_names.push_back(lw.tag + "_s" + std::to_string(i));
    lw.user_ref.push_back(std::static_pointer_cast<RecSink>(Fe::create_or_get_sink<RecSink>(lw.sink_names.back(), id)));
    lw.sink_ids.push_back(id);
  }
  g_delay.store(static_cast<uint32_t>(r.pick({0, 1, 2})));
  recorder().clear();
  quill::Backend::start(lw.bo);
  uint32_t const nt = static_cast<uint32_t>(r.range(2, 6));
  std::mutex mu; // protects lw.incs (harness bookkeeping only; taken outside quill calls)
  std::atomic<bool> bad{false};
  std::vector<std::thread> ths;
  std::string const shared_name = lw.tag + "_shared";
  std::atomic<Lg*> shared_seen{nullptr};
  // a logger that lives for the whole scenario and sorts before every other name: Frontend::get_valid_logger() (a
  // look-up like any other) always finds it, while other threads insert and erase registry entries behind it
  Lg* const perm = Fe::create_or_get_logger("!" + lw.tag + "_perm", Fe::create_or_get_sink<RecSink>(lw.sink_names[0], 999999u), quill::PatternFormatterOptions{"%(message)"}, quill::ClockSourceType::System);
  std::atomic<uint64_t> valid_lookups{0};
  for (uint32_t t = 0; t < nt; ++t)
  {
    uint64_t tseed = mix(r.next(), t);
    ths.emplace_back([&, t, tseed]
                     {
                       Rng tr{tseed};
                       uint32_t seq = 0;
                       uint32_t const tid = t + 1;
                       uint32_t cycles = static_cast<uint32_t>(tr.range(1, 6));
                       for (uint32_t c = 0; c < cycles && !bad.load(); ++c)
                       {
                         // concurrent create-or-get under one shared name: everybody must get the same object
                         {
                           std::vector<std::shared_ptr<quill::Sink>> v{Fe::create_or_get_sink<RecSink>(lw.sink_names[0], 999999u)};
                           Lg* lg = Fe::create_or_get_logger(shared_name, std::move(v), quill::PatternFormatterOptions{"%(message)"}, quill::ClockSourceType::System);
                           Lg* exp = nullptr;
                           if (!shared_seen.compare_exchange_strong(exp, lg) && exp != lg)
                           {
                             violation("C17", "create-or-get-logger-not-idempotent", J{}.str("name", shared_name).str("scenario", "lifecycle_F"));
                             bad.store(true);
                           }
                         }
                         bool const csv = !kDropping && tr.chance(1, 3); // append_row() does not report a refused row
                         Incarnation inc;
                         inc.name = csv ? ("__csv__" + lw.tag + "_csv" + std::to_string(tid)) : (lw.tag + "_t" + std::to_string(tid)); // same name every cycle: re-created after blocking removal
                         inc.csv = csv;
                         inc.gen = c;
                         uint32_t k = static_cast<uint32_t>(tr.range(1, std::min<uint32_t>(2, ns)));
                         for (uint32_t i = 0; i < k; ++i)
                         {
                           uint32_t s = static_cast<uint32_t>(tr.below(ns));
                           if (std::find(inc.sinks.begin(), inc.sinks.end(), s) == inc.sinks.end()) inc.sinks.push_back(s);
                         }
                         std::vector<std::shared_ptr<quill::Sink>> v;
                         for (uint32_t s : inc.sinks) v.push_back(Fe::create_or_get_sink<RecSink>(lw.sink_names[s], 999999u));
                         uint32_t n = static_cast<uint32_t>(tr.range(0, 40));
                         if (csv)
                         {
                           quill::CsvWriter<CsvSchema, FO> cw{lw.tag + "_csv" + std::to_string(tid), v};
                           for (uint32_t i = 0; i < n; ++i)
                           {
                             uint32_t len = static_cast<uint32_t>(tr.range(0, 50));
                             std::string pl = payload(tid, seq, len);
                             cw.append_row(tid, seq, len, std::string_view{pl});
                             inc.issued.emplace_back(tid, seq++);
                           }
                           // destructor: remove_logger_blocking
                         }
                         else
                         {
                           Lg* lg = Fe::create_or_get_logger(inc.name, std::move(v), quill::PatternFormatterOptions{"%(message)"}, quill::ClockSourceType::System);
                           std::vector<Issue> tmp;
                           for (uint32_t i = 0; i < n; ++i)
                           {
                             if (issue_std(tmp, lg, 0, quill::LogLevel::Info, tid, seq, static_cast<uint32_t>(tr.range(0, 50))).res == 1) inc.issued.emplace_back(tid, seq);
                             ++seq;
                             if (tr.chance(1, 20)) (void)Fe::get_logger(shared_name);
                             if (tr.chance(1, 8))
                             {
                               valid_lookups.fetch_add(1, std::memory_order_relaxed);
                               if (Fe::get_valid_logger() == nullptr)
                               {
                                 violation("C17", "get-valid-logger-found-nothing-although-a-valid-logger-exists", J{}.str("scenario", "lifecycle_F"));
                                 bad.store(true);
                               }
                             }
                           }
                           Fe::remove_logger_blocking(lg, tr.chance(1, 2) ? 100 : 0);
                           if (Fe::get_logger(inc.name) != nullptr)
                           {
                             violation("C17", "logger-still-found-after-remove-logger-blocking-returned", J{}.str("name", inc.name).str("scenario", "lifecycle_F"));
                             bad.store(true);
                           }
                         }
                         inc.alive = false;
                         inc.removal_requested = true;
                         inc.removal_completed = true;
                         std::lock_guard<std::mutex> g{mu};
                         lw.incs.push_back(std::move(inc));
                       }
                     });
  }
  for (auto& t : ths) t.join();
  // the shared logger is removed by the main thread (one remover), sinks are dropped by the user
  if (Lg* sl = shared_seen.load()) Fe::remove_logger_blocking(sl);
  Fe::remove_logger_blocking(perm);
  stat_add("lifecycle_get_valid_logger_lookups", static_cast<long long>(valid_lookups.load()));
  for (auto& u : lw.user_ref) u.reset();
  // let the backend clean up: idle cycles
  uint64_t const mark = g_idle_cycles.load();
  uint64_t spins = 0;
  while (g_idle_cycles.load() < mark + 5 && ++spins < 20000000) std::this_thread::sleep_for(std::chrono::microseconds(50));
  quill::Backend::stop();
  g_delay.store(0);
  bool ok = !bad.load();
  if (ok)
  {
    auto evs = recorder().snapshot();
    ok = check_lifecycle(lw, evs, "lifecycle_F");
  }
  stat_add("lifecycle_scenarios");
  stat_add("lifecycle_incarnations", static_cast<long long>(lw.incs.size()));
  stat_add("lifecycle_blocking_removals", static_cast<long long>(lw.incs.size()));
  stat_sig("lifecycle_sigs", "F/" + std::to_string(nt) + "/" + std::to_string(ns) + "/" + std::to_string(lw.incs.size()));
  return ok;
}

// ================================================================================================ dispatcher
inline bool run_more_family(std::string const& family, Rng& sr, uint64_t i, bool& ok)
{
  if (family == "backtrace") ok = backtrace_S(sr, i);
  else if (family == "threads") ok = g_mode_s ? threads_S(sr, i) : threads_F(sr, i);
  else if (family == "faults") ok = faults_S(sr, i);
  else if (family == "btfaults") ok = btfaults_S(sr, i);
  else if (family == "drop") ok = g_mode_s ? drop_S(sr, i) : drop_F(sr, i);
  else if (family == "progress") ok = g_mode_s ? progress_S(sr, i) : progress_F(sr, i);
  else if (family == "levels") ok = g_mode_s ? levels_S(sr, i) : levels_F(sr, i);
  else if (family == "lines") ok = lines_S(sr, i);
  else if (family == "lifecycle") ok = g_mode_s ? lifecycle_S(sr, i) : lifecycle_F(sr, i);
  else return false;
  return true;
}
} // namespace e2e
