// e2e harness core: frontend options chosen at compile time, statement identity, issue log, world (sinks/loggers),
// hook glue for mode F (free running, random delays) and mode S (scheduled), offline checkers shared by families.
#pragma once
#define VF_DEFINE_CLOCK
#include "common/rec.h"
#include "common/sched.h"
#include "common/util.h"
#include "common/vclock.h"

#include "quill/Backend.h"
#include "quill/Frontend.h"
#include "quill/LogMacros.h"
#include "quill/Logger.h"
#include "quill/UserClockSource.h"
#include "quill/backend/ManualBackendWorker.h"
#include "quill/core/VerifHooks.h"
#include "quill/sinks/FileSink.h"

#include <algorithm>
#include <map>
#include <set>
#include <sys/syscall.h>

#ifndef E2E_QUEUE
  #define E2E_QUEUE 0
#endif
#ifndef E2E_CAP
  #define E2E_CAP 1024
#endif
#ifndef E2E_MAX
  #define E2E_MAX (64 * 1024)
#endif

namespace e2e
{
using namespace vf;
namespace qv = quill::verif;

struct FO
{
#if E2E_QUEUE == 0
  static constexpr quill::QueueType queue_type = quill::QueueType::UnboundedBlocking;
#elif E2E_QUEUE == 1
  static constexpr quill::QueueType queue_type = quill::QueueType::BoundedBlocking;
#elif E2E_QUEUE == 2
  static constexpr quill::QueueType queue_type = quill::QueueType::BoundedDropping;
#else
  static constexpr quill::QueueType queue_type = quill::QueueType::UnboundedDropping;
#endif
  static constexpr size_t initial_queue_capacity = E2E_CAP;
  static constexpr uint32_t blocking_queue_retry_interval_ns = 800;
  static constexpr size_t unbounded_queue_max_capacity = E2E_MAX;
  static constexpr quill::HugePagesPolicy huge_pages_policy = quill::HugePagesPolicy::Never;
};
using Fe = quill::FrontendImpl<FO>;
using Lg = quill::LoggerImpl<FO>;
constexpr bool kBounded = (E2E_QUEUE == 1 || E2E_QUEUE == 2);
constexpr bool kDropping = (E2E_QUEUE == 2 || E2E_QUEUE == 3);
constexpr size_t kLimit = kBounded ? E2E_CAP : E2E_MAX; // the largest encoded statement that can ever be queued
constexpr char const* kQueueName = E2E_QUEUE == 0 ? "UnboundedBlocking" : E2E_QUEUE == 1 ? "BoundedBlocking" : E2E_QUEUE == 2 ? "BoundedDropping" : "UnboundedDropping";
// encoded size of our standard statement: header 32 (timestamp, metadata, logger, decoder) + 3*u32 + string_view
// (u32 length + bytes); a payload of kMaxPayload bytes encodes to exactly kLimit bytes
constexpr size_t kOverhead = 32 + 12 + 4;
constexpr size_t kMaxPayload = (kLimit - kOverhead) < 200000 ? (kLimit - kOverhead) : 200000;

// ------------------------------------------------------------------------------------------ globals
inline Stats g_stats;
inline std::mutex g_stats_mu;
inline uint64_t g_seed = 1;
inline std::string g_label; // --label: property on whose behalf the family is run (attribution of shared oracles)
inline bool g_mode_s = false;
inline std::atomic<uint64_t> g_hook_counts[64];
inline std::atomic<uint64_t> g_idle_cycles{0};
inline std::atomic<uint32_t> g_delay{0}; // mode F delay intensity (0 = none)
inline std::function<void(int, void const*, uint64_t)> g_inject; // mode S: called on the backend thread at every hook
inline thread_local uint32_t tl_stall_us = 0;                      // mode F: sleep this long at FE_TS_TAKEN of the next statement
inline thread_local Rng* tl_rng = nullptr;
inline thread_local uint64_t tl_block_retries = 0, tl_block_idle_mark = 0, tl_block_last_idle = 0, tl_block_adv = 0;
inline thread_local uint64_t tl_wait_hits = 0, tl_wait_idle_mark = 0, tl_wait_last_idle = 0, tl_wait_adv = 0;
inline thread_local bool tl_control_op = false; // mode S: the current operation is a control request (flush, backtrace, removal)

inline void stat_add(std::string const& k, long long n = 1)
{
  std::lock_guard<std::mutex> g{g_stats_mu};
  g_stats.add(k, n);
}
inline void stat_sig(std::string const& k, std::string const& s)
{
  std::lock_guard<std::mutex> g{g_stats_mu};
  g_stats.sig(k, s);
}

// pseudo call-out: a system-clock read on the scheduler / backend thread in mode S (see vclock.h)
constexpr int kClockReadPoint = 60;
inline thread_local bool tl_in_clock_hook = false;
inline void clock_read_hook()
{
  if (!g_mode_s || tl_sworker || tl_in_clock_hook || !g_inject) return;
  tl_in_clock_hook = true;
  g_hook_counts[kClockReadPoint].fetch_add(1, std::memory_order_relaxed);
  g_inject(kClockReadPoint, nullptr, 0);
  tl_in_clock_hook = false;
}

inline thread_local uint64_t tl_first_block_clk = 0; // clock when the current log call first found its queue full (0: it never did)
inline void hook(int p, void const* a, uint64_t b)
{
  g_hook_counts[p & 63].fetch_add(1, std::memory_order_relaxed);
  if (p == qv::FE_BLOCKED_RETRY && !tl_first_block_clk) tl_first_block_clk = vf::wall_now_ns();
  if (p == qv::BW_IDLE_ALL_EMPTY) g_idle_cycles.fetch_add(1, std::memory_order_relaxed);
  if (g_mode_s)
  {
    if (SWorker* w = tl_sworker)
    {
      // a control request refused by a full dropping queue is retried by quill in a loop: park there too
      if (p == qv::FE_BLOCKED_RETRY || p == qv::FE_FLUSH_WAIT || p == qv::FE_REMOVE_WAIT || (p == qv::FE_DROPPED && tl_control_op)) w->park(p);
      else if (p == qv::FE_TS_TAKEN && w->stall_after_clock_read)
      {
        w->stall_after_clock_read = false;
        w->park(p);
      }
    }
    else if (g_inject)
      g_inject(p, a, b);
    return;
  }
  // mode F: random delays at windows that are outside any quill spinlock
  if (p == qv::FE_BLOCKED_RETRY)
  {
    // progress verdict in logical steps: between two consecutive failed attempts of this call the backend completed an
    // "all queues and buffers empty" cycle, and that happened at more than 100 distinct retries: nothing is ahead of
    // this producer and it still gets no room. Counting the retries at which the idle counter ADVANCED (not the total
    // advance) matters: a thread preempted between its failed attempt and this hook sees the counter jump by thousands
    // once, and then succeeds (false alarm met under heavy machine load, see DESIGN section 7).
    uint64_t const idle_now = g_idle_cycles.load(std::memory_order_relaxed);
    if (tl_block_retries++ == 0) { tl_block_idle_mark = idle_now; tl_block_adv = 0; }
    else if (idle_now != tl_block_last_idle) ++tl_block_adv;
    tl_block_last_idle = idle_now;
    if (tl_block_adv > 100 && tl_block_retries != UINT64_MAX)
    {
      violation("C09", "blocked-call-never-resumes-with-idle-backend", J{}.unum("retries", tl_block_retries).unum("retries_after_which_the_backend_had_idled_again", tl_block_adv).unum("backend_idle_cycles_since_first_retry", g_idle_cycles.load() - tl_block_idle_mark).unum("encoded_size", b).str("queue", kQueueName).unum("cap", E2E_CAP).str("family", "mode F"));
      end_ok();
      fflush(stdout);
      _exit(0);
    }
    return;
  }
  if (p == qv::FE_FLUSH_WAIT || p == qv::FE_REMOVE_WAIT)
  {
    // progress verdict in logical steps for the two blocking control calls: the caller found its flag unset, and
    // since its previous look the backend completed an "all queues and buffers empty" cycle - at more than 1000 distinct
    // looks. A flush request still queued keeps the queues non-empty, and an invalidated logger is freed on the first
    // all-empty cycle, so in a correct library this happens at most once or twice per call (preemption between the
    // flag load and this hook); see the comment at FE_BLOCKED_RETRY.
    uint64_t const idle_now = g_idle_cycles.load(std::memory_order_relaxed);
    if (tl_wait_hits++ == 0) { tl_wait_idle_mark = idle_now; tl_wait_adv = 0; }
    else if (idle_now != tl_wait_last_idle) ++tl_wait_adv;
    tl_wait_last_idle = idle_now;
    if (tl_wait_adv > 1000)
    {
      bool const flush = p == qv::FE_FLUSH_WAIT;
      violation(flush ? "C06" : "C17", flush ? "flush-never-returns-with-idle-backend" : "remove-logger-blocking-never-returns-with-idle-backend",
                J{}.unum("wait_loop_iterations", tl_wait_hits).unum("looks_after_which_the_backend_had_idled_again", tl_wait_adv).unum("backend_idle_cycles_since_wait_began", g_idle_cycles.load() - tl_wait_idle_mark).str("queue", kQueueName).str("family", "mode F"));
      end_ok();
      fflush(stdout);
      _exit(0);
    }
    return;
  }
  if (p == qv::FE_TS_TAKEN)
  {
    tl_block_retries = 0;
    tl_wait_hits = 0;
    if (tl_stall_us)
    {
      std::this_thread::sleep_for(std::chrono::microseconds(tl_stall_us));
      tl_stall_us = 0;
    }
    return;
  }
  uint32_t const d = g_delay.load(std::memory_order_relaxed);
  if (!d) return;
  static thread_local Rng r{mix(g_seed, static_cast<uint64_t>(syscall(SYS_gettid)))};
  switch (p)
  {
  case qv::FE_BEFORE_COMMIT:
  case qv::BW_AFTER_CACHE_REFRESH:
  case qv::BW_BEFORE_READ_QUEUE:
  case qv::BW_AFTER_DECODE_ONE:
  case qv::BW_AFTER_READ_QUEUE:
  case qv::BW_BEFORE_PROCESS_EVENT:
  case qv::BW_AFTER_POP:
  case qv::BW_BATCH_NEXT:
  case qv::BW_AFTER_FAILURE_CHECK:
  case qv::BW_BEFORE_CLEANUP_CTX:
  case qv::BW_BEFORE_CLEANUP_LOGGERS:
  case qv::UQ_BEFORE_PUBLISH_NEXT:
  case qv::UQ_NEXT_SEEN:
  case qv::UQ_BEFORE_DELETE:
    jitter(r, d);
    break;
  default:
    break;
  }
}

// ------------------------------------------------------------------------------------------ statements
inline std::string payload(uint32_t tid, uint32_t seq, uint32_t len)
{
  static char const al[] = "abcdefghijklmnopqrstuvwxyz0123456789ABCDEFGHIJKLMNOPQRSTUVWXYZ_-";
  std::string s(len, ' ');
  uint64_t x = mix(tid * 1000003ull + 17, seq);
  for (uint32_t i = 0; i < len; ++i)
  {
    if ((i & 7) == 0) x = Rng::splitmix(x);
    s[i] = al[(x >> ((i & 7) * 8)) & 63];
  }
  return s;
}

struct Issue
{
  uint32_t tid{0}, seq{0};
  uint16_t logger{0};
  quill::LogLevel level{quill::LogLevel::Info};
  int8_t res{1}; // 1 accepted, 0 dropped (returned false), -1 not enqueued (level check), 2 control op
  uint32_t len{0};
  uint64_t g_call{0}, g_ret{0};
  uint64_t ts_lo{0};   // wall clock read before the call (lower bound of the statement's timestamp)
  uint64_t clk_ret{0}; // wall clock read after the call returned (upper bound of its enqueue instant)
  uint64_t clk_first_block{0}; // wall clock when the call first found its queue full (0: never); the timestamp was read before that
  uint32_t stalled_us{0};
  bool dynamic{false};
  uint8_t kind{0}; // 0 log, others family specific
};

#define VF_LOG_RES(res, logger, lvl, fmt, ...)                                                                         \
  do                                                                                                                   \
  {                                                                                                                    \
    if (logger->template should_log_statement<lvl>())                                                                  \
    {                                                                                                                  \
      static constexpr quill::MacroMetadata macro_metadata{__FILE__ ":" QUILL_STRINGIFY(__LINE__), __FUNCTION__, fmt,   \
                                                           nullptr, lvl, quill::MacroMetadata::Event::Log};            \
      res = logger->template log_statement<false, false>(quill::LogLevel::None, &macro_metadata, ##__VA_ARGS__) ? 1 : 0; \
    }                                                                                                                  \
    else                                                                                                               \
      res = -1;                                                                                                        \
  } while (0)

#define VF_LOG_DYN(res, logger, lvl, fmt, ...)                                                                          \
  do                                                                                                                   \
  {                                                                                                                    \
    if (logger->should_log_statement(lvl))                                                                             \
    {                                                                                                                  \
      static constexpr quill::MacroMetadata macro_metadata{__FILE__ ":" QUILL_STRINGIFY(__LINE__), __FUNCTION__, fmt,   \
                                                           nullptr, quill::LogLevel::Dynamic, quill::MacroMetadata::Event::Log}; \
      res = logger->template log_statement<false, true>(lvl, &macro_metadata, ##__VA_ARGS__) ? 1 : 0;                  \
    }                                                                                                                  \
    else                                                                                                               \
      res = -1;                                                                                                        \
  } while (0)

// the standard statement: "tid|seq|len|payload". One statement in three passes the payload as a C string (its length
// goes through the thread's size cache, e.g. across statements that a dropping queue refused), the others as a
// string_view; the text is the same
#define VF_LOG_STD_CASE(L)                                                                                             \
  case quill::LogLevel::L:                                                                                             \
    if (cs) VF_LOG_RES(res, lg, quill::LogLevel::L, "{}|{}|{}|{}", tid, seq, len, cp);                                 \
    else VF_LOG_RES(res, lg, quill::LogLevel::L, "{}|{}|{}|{}", tid, seq, len, sv);                                    \
    break;
// ... and one in five (of the ordinary levels) supplies its level at run time (one more byte in the record)
inline int log_std(Lg* lg, quill::LogLevel lvl, uint32_t tid, uint32_t seq, std::string const& pl)
{
  int res = -1;
  uint32_t const len = static_cast<uint32_t>(pl.size());
  std::string_view const sv{pl};
  char const* const cp = pl.c_str();
  bool const cs = ((tid * 31u + seq) % 3u) == 0;
  if (((tid * 17u + seq) % 5u) == 0 && lvl != quill::LogLevel::Backtrace && len < kMaxPayload) // (a payload of kMaxPayload bytes fills the queue exactly: no room for the extra byte)
  {
    if (cs) VF_LOG_DYN(res, lg, lvl, "{}|{}|{}|{}", tid, seq, len, cp);
    else VF_LOG_DYN(res, lg, lvl, "{}|{}|{}|{}", tid, seq, len, sv);
    return res;
  }
  switch (lvl)
  {
    VF_LOG_STD_CASE(TraceL3)
    VF_LOG_STD_CASE(TraceL2)
    VF_LOG_STD_CASE(TraceL1)
    VF_LOG_STD_CASE(Debug)
    VF_LOG_STD_CASE(Info)
    VF_LOG_STD_CASE(Notice)
    VF_LOG_STD_CASE(Warning)
    VF_LOG_STD_CASE(Error)
    VF_LOG_STD_CASE(Critical)
    VF_LOG_STD_CASE(Backtrace)
  default: break;
  }
  return res;
}

// issue one standard statement and record the call/return events at the client boundary
inline Issue issue_std(std::vector<Issue>& log, Lg* lg, uint16_t logger_idx, quill::LogLevel lvl, uint32_t tid, uint32_t seq, uint32_t len)
{
  Issue is;
  is.tid = tid;
  is.seq = seq;
  is.logger = logger_idx;
  is.level = lvl;
  is.len = len;
  std::string const pl = payload(tid, seq, len);
  is.stalled_us = tl_stall_us;
  tl_first_block_clk = 0;
  is.ts_lo = wall_now_ns();
  is.g_call = ticket();
  is.res = static_cast<int8_t>(log_std(lg, lvl, tid, seq, pl));
  is.g_ret = ticket();
  is.clk_ret = wall_now_ns();
  is.clk_first_block = tl_first_block_clk;
  log.push_back(is);
  return is;
}

struct Parsed
{
  bool ok{false};
  uint32_t tid{0}, seq{0}, len{0};
  bool payload_ok{false};
};
inline Parsed parse_msg(std::string const& m)
{
  Parsed p;
  size_t a = m.find('|');
  if (a == std::string::npos) return p;
  size_t b = m.find('|', a + 1);
  if (b == std::string::npos) return p;
  size_t c = m.find('|', b + 1);
  if (c == std::string::npos) return p;
  char* e = nullptr;
  p.tid = static_cast<uint32_t>(strtoul(m.c_str(), &e, 10));
  if (e != m.c_str() + a) return p;
  p.seq = static_cast<uint32_t>(strtoul(m.c_str() + a + 1, &e, 10));
  if (e != m.c_str() + b) return p;
  p.len = static_cast<uint32_t>(strtoul(m.c_str() + b + 1, &e, 10));
  if (e != m.c_str() + c) return p;
  p.ok = true;
  p.payload_ok = (m.size() - c - 1 == p.len) && (m.compare(c + 1, std::string::npos, payload(p.tid, p.seq, p.len)) == 0);
  return p;
}

// ------------------------------------------------------------------------------------------ world
// a user-supplied clock that runs one day ahead of the system clock (a replayed simulation): the backend must not
// hold such statements back (the ordering gate does not apply to user clocks)
struct FutureClock : quill::UserClockSource
{
  uint64_t now() const override
  {
    timespec ts{};
    clock_gettime(CLOCK_REALTIME, &ts);
    return static_cast<uint64_t>(ts.tv_sec + 86400) * 1000000000ull + static_cast<uint64_t>(ts.tv_nsec);
  }
};
inline FutureClock& future_clock()
{
  static FutureClock* c = new FutureClock; // never destroyed (loggers may outlive static destruction order)
  return *c;
}

struct LoggerDef
{
  Lg* lg{nullptr};
  std::string name;
  std::vector<uint32_t> sinks; // indices into World::sinks, in attachment order
  bool removed{false};
  bool tsc{false}; // timestamps are rdtsc values converted by the backend (order family, mode F)
  bool user_clock{false}; // timestamps come from future_clock()
};

struct World
{
  uint32_t tsc_mask{0}; // bit i: the i-th logger made by make_logger uses ClockSourceType::Tsc
  uint32_t user_clock_mask{0}; // bit i: the i-th logger uses ClockSourceType::User with future_clock()
  std::string tag;
  std::vector<std::shared_ptr<RecSink>> sinks;
  std::vector<LoggerDef> loggers;
  quill::BackendOptions bo;
  uint32_t sink_id_base{0};

  static uint32_t& next_sink_id()
  {
    static uint32_t n = 0;
    return n;
  }

  void make_sinks(uint32_t n, std::function<std::optional<quill::PatternFormatterOptions>(uint32_t)> ov = nullptr)
  {
    sink_id_base = next_sink_id();
    for (uint32_t i = 0; i < n; ++i)
    {
      uint32_t id = next_sink_id()++;
      auto sp = Fe::create_or_get_sink<RecSink>(tag + "_s" + std::to_string(i), id, ov ? ov(i) : std::nullopt);
      sinks.push_back(std::static_pointer_cast<RecSink>(sp));
    }
  }
  uint32_t sink_index_of(uint32_t sink_id) const { return sink_id - sink_id_base; }

  Lg* make_logger(std::vector<uint32_t> const& sink_idx, quill::PatternFormatterOptions pfo = quill::PatternFormatterOptions{"%(message)"},
                  quill::ClockSourceType clk = quill::ClockSourceType::System)
  {
    std::vector<std::shared_ptr<quill::Sink>> v;
    for (uint32_t i : sink_idx) v.push_back(sinks[i]);
    LoggerDef d;
    d.name = tag + "_l" + std::to_string(loggers.size());
    d.sinks = sink_idx;
    if (tsc_mask & (1u << (loggers.size() & 31)))
    {
      clk = quill::ClockSourceType::Tsc;
      d.tsc = true;
    }
    quill::UserClockSource* uc = nullptr;
    if (user_clock_mask & (1u << (loggers.size() & 31)))
    {
      clk = quill::ClockSourceType::User;
      uc = &future_clock();
      d.user_clock = true;
    }
    d.lg = Fe::create_or_get_logger(d.name, std::move(v), pfo, clk, uc);
    d.lg->set_log_level(quill::LogLevel::TraceL3);
    loggers.push_back(d);
    return d.lg;
  }

  void random_backend_options(Rng& r)
  {
    bo = quill::BackendOptions{};
    bo.check_backend_singleton_instance = false;
    bo.transit_event_buffer_initial_capacity = r.pick({1u, 2u, 4u, 128u}); // "must be a power of two" (BackendOptions.h)
    static size_t const lim[] = {1, 2, 8, 4096, 32768};
    size_t hard = lim[r.below(5)];
    size_t soft = lim[r.below(5)];
    if (soft > hard) std::swap(soft, hard);
    if (soft == 32768) soft = 4096;
    bo.transit_events_soft_limit = soft;
    bo.transit_events_hard_limit = hard;
    bo.log_timestamp_ordering_grace_period = std::chrono::microseconds{r.pick({0, 1, 1000})};
    bo.sleep_duration = std::chrono::nanoseconds{r.pick({0, 100, 500, 20000})};
    bo.sink_min_flush_interval = std::chrono::milliseconds{r.pick({0, 0, 200})};
    bo.error_notifier = [](std::string const& s) { recorder().note(s); };
  }

  std::string describe() const
  {
    return J{}
      .str("queue", kQueueName)
      .unum("cap", E2E_CAP)
      .unum("max", E2E_MAX)
      .unum("tbuf", bo.transit_event_buffer_initial_capacity)
      .unum("soft", bo.transit_events_soft_limit)
      .unum("hard", bo.transit_events_hard_limit)
      .num("grace_us", bo.log_timestamp_ordering_grace_period.count())
      .num("sleep_ns", bo.sleep_duration.count())
      .num("flush_ms", bo.sink_min_flush_interval.count())
      .unum("sinks", sinks.size())
      .unum("loggers", loggers.size())
      .done();
  }

  // remove all loggers (non blocking), drop our sink references
  void teardown_loggers()
  {
    for (auto& l : loggers)
      if (!l.removed)
      {
        Fe::remove_logger(l.lg);
        l.removed = true;
      }
  }
};

// ------------------------------------------------------------------------------------------ delivery checker
struct DeliverOpts
{
  char const* prop{"C03"};
  std::function<bool(Issue const&, uint32_t sink_idx)> sink_accepts; // default: everything
  std::function<bool(Issue const&)> may_be_missing;                  // statements that are allowed (not required) to be absent
  bool check_order{true};
};

// returns false when a violation was reported
inline bool check_delivery(World const& w, std::vector<Issue> const& issues, std::vector<SinkEv> const& evs, DeliverOpts const& o, std::string const& scen)
{
  // recorded: (sink idx, logger name) -> per thread sequence
  struct Key
  {
    uint32_t sink;
    std::string logger;
    bool operator<(Key const& k) const { return sink != k.sink ? sink < k.sink : logger < k.logger; }
  };
  std::map<Key, std::map<uint32_t, std::vector<uint32_t>>> got;
  for (auto const& e : evs)
  {
    if (e.kind != 'w') continue;
    if (e.sink < w.sink_id_base || e.sink >= w.sink_id_base + w.sinks.size()) continue;
    Parsed p = parse_msg(e.msg);
    if (!p.ok) continue; // non-standard statements are judged by their own family
    if (!p.payload_ok)
    {
      violation(o.prop, "payload-corrupt", J{}.unum("tid", p.tid).unum("seq", p.seq).unum("len", p.len).str("msg_head", e.msg.substr(0, 80)).str("scenario", scen).raw("cfg", w.describe()));
      return false;
    }
    got[Key{w.sink_index_of(e.sink), e.logger}][p.tid].push_back(p.seq);
  }
  // expected
  for (uint32_t li = 0; li < w.loggers.size(); ++li)
  {
    LoggerDef const& L = w.loggers[li];
    for (uint32_t si : L.sinks)
    {
      std::map<uint32_t, std::vector<Issue const*>> exp;
      for (auto const& is : issues)
        if (is.kind == 0 && is.logger == li && is.res == 1 && (!o.sink_accepts || o.sink_accepts(is, si))) exp[is.tid].push_back(&is);
      auto& g = got[Key{si, L.name}];
      std::set<uint32_t> tids;
      for (auto& kv : exp) tids.insert(kv.first);
      for (auto& kv : g) tids.insert(kv.first);
      for (uint32_t tid : tids)
      {
        auto& gv = g[tid];
        auto& ev = exp[tid];
        // walk both sequences: every expected (unless optional) must appear, in order, exactly once; nothing else may appear
        size_t gi = 0;
        for (size_t ei = 0; ei < ev.size(); ++ei)
        {
          if (gi < gv.size() && gv[gi] == ev[ei]->seq)
          {
            ++gi;
            continue;
          }
          if (o.may_be_missing && o.may_be_missing(*ev[ei])) continue;
          // classify: lost, or out of order / duplicated
          bool later = std::find(gv.begin() + static_cast<long>(std::min(gi, gv.size())), gv.end(), ev[ei]->seq) != gv.end();
          bool earlier = std::find(gv.begin(), gv.begin() + static_cast<long>(std::min(gi, gv.size())), ev[ei]->seq) != gv.end();
          std::string head;
          for (size_t k = gi >= 3 ? gi - 3 : 0; k < std::min(gv.size(), gi + 4); ++k) head += std::to_string(gv[k]) + " ";
          violation(o.prop, later ? "thread-order-violated" : earlier ? "statement-duplicated-or-reordered" : "statement-lost",
                    J{}.unum("tid", tid).unum("seq", ev[ei]->seq).unum("logger", li).unum("sink", si).unum("expected_position", ei).unum("delivered_for_thread", gv.size()).unum("expected_for_thread", ev.size()).str("delivered_near", head).str("scenario", scen).raw("cfg", w.describe()));
          return false;
        }
        if (gi < gv.size())
        {
          // something was delivered that was not expected here: duplicate, a dropped/filtered statement, or foreign
          uint32_t seq = gv[gi];
          bool known = false, dup = false;
          for (auto const* p : ev) if (p->seq == seq) dup = true;
          for (auto const& is : issues) if (is.tid == tid && is.seq == seq) known = true;
          violation(o.prop, dup ? "statement-duplicated" : known ? "statement-delivered-that-must-not-be" : "unknown-statement-delivered",
                    J{}.unum("tid", tid).unum("seq", seq).unum("logger", li).unum("sink", si).str("scenario", scen).raw("cfg", w.describe()));
          return false;
        }
      }
      got.erase(Key{si, L.name});
    }
  }
  for (auto const& kv : got)
  {
    bool any = false;
    for (auto const& t : kv.second) if (!t.second.empty()) any = true;
    if (!any) continue;
    violation(o.prop, "statement-on-a-sink-not-attached-to-its-logger", J{}.unum("sink", kv.first.sink).str("logger", kv.first.logger).str("scenario", scen).raw("cfg", w.describe()));
    return false;
  }
  return true;
}
} // namespace e2e
