// families: drop (C08), progress (C09), levels (C16), lifecycle (C17), lines (C12) + dispatcher
#pragma once
#include "quill/CsvWriter.h"
#include "quill/filters/Filter.h"

namespace e2e
{
// ================================================================================================ drop (C08)
inline int log_maybe_throw(std::vector<Issue>& log, Lg* lg, uint16_t li, uint32_t tid, uint32_t seq, uint32_t len, bool& threw)
{
  threw = false;
  try
  {
    return issue_std(log, lg, li, quill::LogLevel::Info, tid, seq, len).res;
  }
  catch (quill::QuillError const&)
  {
    // unbounded dropping queue: a statement larger than the maximum capacity is rejected with an error (C02);
    // it was not enqueued
    threw = true;
    Issue is;
    is.tid = tid; is.seq = seq; is.logger = li; is.len = len; is.res = 0; is.kind = 8;
    log.push_back(is);
    return 0;
  }
}

inline bool drop_S(Rng& r, uint64_t idx)
{
  static_assert(true, "");
  World w;
  w.tag = "qS" + std::to_string(idx);
  w.random_backend_options(r);
  make_topology(w, r, 2, 2);
  recorder().clear();
  SRun run{w, r};
  World* wp = &w;
  uint32_t const nw = static_cast<uint32_t>(r.range(1, 3));
  std::map<uint32_t, uint32_t> os_tid; // harness tid -> OS tid
  std::map<uint32_t, uint32_t>* ot = &os_tid;
  for (uint32_t i = 0; i < nw; ++i)
  {
    SW& s = run.spawn();
    SW* sp = &s;
    run.run_on(s, [sp, ot] { (*ot)[sp->tid] = static_cast<uint32_t>(syscall(SYS_gettid)); }, "gettid");
  }
  // loggers that are only ever removed (blocking) under flood
  std::vector<Lg*> victims;
  for (int i = 0; i < 2; ++i)
  {
    std::vector<std::shared_ptr<quill::Sink>> v{w.sinks[0]};
    victims.push_back(Fe::create_or_get_logger(w.tag + "_victim" + std::to_string(i), std::move(v), quill::PatternFormatterOptions{"%(message)"}, quill::ClockSourceType::System));
  }
  uint32_t const policy = static_cast<uint32_t>(r.below(4)); // 0 never poll during the phase, 1 after every k, 2 only when a drop was seen, 3 often
  uint32_t const k = static_cast<uint32_t>(r.range(2, 20));
  uint32_t const steps = static_cast<uint32_t>(r.range(30, 300));
  uint64_t drops = 0, oversize = 0, flush_under_flood = 0, exits_with_drops = 0, exits_in_scan_window = 0;
  bool saw_drop = false;
  // inside the backend's reclaim of exited threads' contexts, right before it scans for removable ones: a thread
  // whose queue is empty has a statement refused (one that can never fit) and exits at once - its drop count is final
  // only now and must still be reported
  uint32_t scan_inject_budget = 3;
  g_inject = [&](int p, void const*, uint64_t)
  {
    if (p != qv::BW_CLEANUP_CTX_SCAN || !scan_inject_budget || !r.chance(1, 2)) return;
    auto idle = run.idle_workers();
    if (idle.size() < 2) return;
    --scan_inject_budget;
    SW& v = *idle[r.below(idle.size())];
    SW* vp = &v;
    run.note('i', p);
    run.run_on(v, [wp, vp] { bool threw; log_maybe_throw(vp->issues, wp->loggers[0].lg, 0, vp->tid, vp->seq++, static_cast<uint32_t>(kMaxPayload + 60), threw); }, "log-oversize");
    run.exit_worker(v);
    ++exits_in_scan_window;
  };
  for (uint32_t st = 0; st < steps && !run.failed; ++st)
  {
    if ((policy == 1 && st % k == 0) || (policy == 2 && saw_drop) || (policy == 3 && r.chance(1, 3)))
    {
      run.poll();
      saw_drop = false;
    }
    auto parked = run.parked_workers();
    if (!parked.empty() && r.chance(1, 3))
    {
      run.poll();
      run.resume(*parked[r.below(parked.size())]);
      continue;
    }
    auto idle = run.idle_workers();
    if (idle.empty()) { run.poll(); continue; }
    SW& s = *idle[r.below(idle.size())];
    SW* sp = &s;
    uint64_t x = r.below(100);
    if (x < 86)
    {
      uint16_t li = static_cast<uint16_t>(r.below(w.loggers.size()));
      uint32_t len = r.chance(1, 25) ? static_cast<uint32_t>(kMaxPayload + r.range(1, 100)) : r.chance(1, 6) ? static_cast<uint32_t>(r.range(kMaxPayload / 4, kMaxPayload)) : static_cast<uint32_t>(r.range(0, 120));
      uint64_t* dp = &drops;
      uint64_t* op = &oversize;
      bool* sd = &saw_drop;
      run.run_on(s, [wp, sp, li, len, dp, op, sd]
                 {
                   bool threw = false;
                   int res = log_maybe_throw(sp->issues, wp->loggers[li].lg, li, sp->tid, sp->seq++, len, threw);
                   if (res == 0) { ++*dp; *sd = true; }
                   if (threw) ++*op;
                 },
                 "log");
    }
    else if (x < 94)
    {
      // control request under flood: must not be discarded (it is retried until it fits) and must take effect
      ++flush_under_flood;
      uint16_t li = static_cast<uint16_t>(r.below(w.loggers.size()));
      run.run_on(s, [wp, li] { tl_control_op = true; wp->loggers[li].lg->flush_log(0); tl_control_op = false; }, "flush_log");
    }
    else if (x < 97)
    {
      // other control requests under flood: backtrace init / flush and blocking logger removal are retried until they
      // fit, are never discarded and are not "dropped messages"
      ++flush_under_flood;
      uint16_t li = static_cast<uint16_t>(r.below(w.loggers.size()));
      uint64_t which = r.below(3);
      if (which == 2 && !victims.empty())
      {
        Lg* v = victims.back();
        victims.pop_back();
        run.run_on(s, [v] { tl_control_op = true; Fe::remove_logger_blocking(v, 0); tl_control_op = false; }, "remove_logger_blocking");
      }
      else if (which == 1)
        run.run_on(s, [wp, li] { tl_control_op = true; wp->loggers[li].lg->flush_backtrace(); tl_control_op = false; }, "flush_backtrace");
      else
        run.run_on(s, [wp, li] { tl_control_op = true; wp->loggers[li].lg->init_backtrace(4); tl_control_op = false; }, "init_backtrace");
    }
    else if (run.ws.size() < 7)
    {
      // a thread that may have dropped exits while others keep going (its context is reclaimed later)
      bool had_drops = false;
      for (auto const& is : s.issues) if (is.res == 0 && is.kind == 0) had_drops = true;
      if (had_drops) ++exits_with_drops;
      run.exit_worker(s);
      SW& n = run.spawn();
      SW* np = &n;
      run.run_on(n, [np, ot] { (*ot)[np->tid] = static_cast<uint32_t>(syscall(SYS_gettid)); }, "gettid");
    }
  }
  bool ok = !run.failed && run.drain("drop_S");
  g_inject = nullptr;
  // ---- epilogue: backtrace control requests issued while the caller's queue is FULL must take effect (they are
  // retried until they fit): init_backtrace(3), two backtrace statements, flush_backtrace() -> exactly the accepted
  // backtrace statements are replayed on the (separate) sink of that logger
  if (ok && !run.idle_workers().empty() && r.chance(1, 2))
  {
    uint32_t const bt_sink_id = World::next_sink_id()++;
    auto bt_sink = std::static_pointer_cast<RecSink>(Fe::create_or_get_sink<RecSink>(w.tag + "_bt", bt_sink_id));
    Lg* bl = Fe::create_or_get_logger(w.tag + "_btl", bt_sink, quill::PatternFormatterOptions{"%(message)"}, quill::ClockSourceType::System);
    bl->set_log_level(quill::LogLevel::TraceL3);
    SW& s = *run.idle_workers()[0];
    SW* sp = &s;
    auto fill = [&]
    {
      // log without polling until the queue refuses a statement
      for (int i = 0; i < 600 && !s.w->parked(); ++i)
      {
        size_t const before = s.issues.size();
        run.run_on(s, [wp, sp] { bool threw; log_maybe_throw(sp->issues, wp->loggers[0].lg, 0, sp->tid, sp->seq++, 100, threw); }, "log");
        if (s.issues.size() > before && s.issues.back().res == 0) return true;
      }
      return false;
    };
    bool const full1 = fill();
    run.run_on(s, [bl] { tl_control_op = true; bl->init_backtrace(3); tl_control_op = false; }, "init_backtrace");
    ok = run.wait_for(s, "drop_S") && run.drain("drop_S");
    std::vector<std::pair<uint32_t, uint32_t>> accepted;
    for (int i = 0; i < 2 && ok; ++i)
    {
      uint32_t const seq = s.seq++;
      auto rp = std::make_shared<int>(-1);
      run.run_on(s, [bl, sp, seq, rp] { *rp = log_bt(bl, false, sp->tid, seq, 5); }, "bt");
      if (*rp == 1) accepted.emplace_back(s.tid, seq);
    }
    bool const full2 = ok && fill();
    if (ok)
    {
      run.run_on(s, [bl] { tl_control_op = true; bl->flush_backtrace(); tl_control_op = false; }, "flush_backtrace");
      ok = run.wait_for(s, "drop_S") && run.drain("drop_S");
    }
    if (ok)
    {
      std::vector<std::pair<uint32_t, uint32_t>> got;
      for (auto const& e : recorder().snapshot())
      {
        if (e.kind != 'w' || e.sink != bt_sink_id) continue;
        Parsed p = parse_msg(e.msg);
        if (p.ok) got.emplace_back(p.tid, p.seq);
      }
      if (got != accepted)
      {
        violation("C08", "backtrace-control-request-under-full-queue-had-no-effect",
                  J{}.unum("backtrace_statements_accepted", accepted.size()).unum("replayed", got.size()).boolean("queue_full_at_init_backtrace", full1).boolean("queue_full_at_flush_backtrace", full2).str("queue", kQueueName).str("scenario", "drop_S").raw("cfg", w.describe()));
        ok = false;
      }
      if (full1 || full2) stat_add("drop_backtrace_controls_issued_on_a_full_queue");
    }
    Fe::remove_logger(bl);
  }
  if (ok)
  {
    run.finish_workers();
    for (int i = 0; i < 4; ++i) run.poll();
    auto evs = recorder().snapshot();
    auto all = run.all_issues();
    DeliverOpts o;
    o.prop = "C08";
    ok = check_delivery(w, all, evs, o, "drop_S");
    if (ok && kBounded)
    {
      // the discard counts reported through the error notifier add up to the number of discarded ordinary statements
      std::map<uint32_t, uint64_t> reported, expected;
      for (auto const& n : recorder().notes_snapshot())
      {
        unsigned long cnt = 0, t = 0;
        size_t p = n.second.find("Dropped ");
        if (p != std::string::npos && sscanf(n.second.c_str() + p, "Dropped %lu log messages from thread %lu", &cnt, &t) == 2) reported[static_cast<uint32_t>(t)] += cnt;
      }
      for (auto const& is : all)
        if (is.kind == 0 && is.res == 0) expected[os_tid[is.tid]] += 1;
      std::set<uint32_t> tids;
      for (auto& kv : reported) tids.insert(kv.first);
      for (auto& kv : expected) tids.insert(kv.first);
      for (uint32_t t : tids)
        if (reported[t] != expected[t])
        {
          violation("C08", reported[t] < expected[t] ? "dropped-statements-not-reported" : "more-drops-reported-than-happened",
                    J{}.unum("os_thread", t).unum("reported", reported[t]).unum("discarded", expected[t]).unum("threads_that_exited_with_drops", exits_with_drops).unum("flush_requests", flush_under_flood).str("scenario", "drop_S").raw("cfg", w.describe()));
          ok = false;
          break;
        }
    }
  }
  stat_add("drop_scenarios");
  stat_add("drop_statements_attempted", static_cast<long long>(run.all_issues().size()));
  stat_add("drop_statements_discarded", static_cast<long long>(drops));
  stat_add("drop_oversize_rejections", static_cast<long long>(oversize));
  stat_add("drop_control_requests_under_flood", static_cast<long long>(flush_under_flood));
  stat_add("drop_threads_exited_with_pending_drop_count", static_cast<long long>(exits_with_drops));
  stat_add("drop_threads_dropping_and_exiting_inside_the_reclaim_scan_window", static_cast<long long>(exits_in_scan_window));
  if (drops) stat_sig("drop_sigs", std::to_string(run.sig_hash));
  for (Lg* v : victims) Fe::remove_logger(v);
  w.teardown_loggers();
  return ok && !run.failed;
}

inline bool drop_F(Rng& r, uint64_t idx)
{
  World w;
  w.tag = "qF" + std::to_string(idx);
  w.random_backend_options(r);
  // one scenario in five stops the backend with wait_for_queues_to_empty_before_exit switched off: accepted statements
  // still queued at stop() may then stay unwritten (that is what the option says), but every discarded one must still
  // have been reported when the backend thread ends
  bool const no_wait_at_exit = r.chance(1, 5);
  w.bo.wait_for_queues_to_empty_before_exit = !no_wait_at_exit;
  // ... half of those with a late, short-lived thread whose whole life falls into one idle sleep of the backend: the
  // backend has never seen it when stop() is called
  bool const late_thread = no_wait_at_exit && r.chance(1, 2);
  if (late_thread) w.bo.sleep_duration = std::chrono::milliseconds{150};
  make_topology(w, r, 2, 2);
  if (r.chance(1, 2)) w.sinks[0]->slow_us.store(static_cast<uint32_t>(r.pick({10, 60})));
  g_delay.store(static_cast<uint32_t>(r.pick({0, 1, 2})));
  recorder().clear();
  quill::Backend::start(w.bo);
  uint32_t const nt = static_cast<uint32_t>(r.range(1, 6));
  struct T
  {
    std::thread th;
    std::vector<Issue> issues;
    uint32_t os_tid{0};
  };
  std::vector<T> ts(nt);
  for (uint32_t t = 0; t < nt; ++t)
  {
    uint64_t tseed = mix(r.next(), t);
    ts[t].th = std::thread([&w, &ts, t, tseed]
                           {
                             Rng tr{tseed};
                             ts[t].os_tid = static_cast<uint32_t>(syscall(SYS_gettid));
                             uint32_t n = static_cast<uint32_t>(tr.range(20, 400));
                             for (uint32_t s = 0; s < n; ++s)
                             {
                               uint16_t li = static_cast<uint16_t>(tr.below(w.loggers.size()));
                               bool threw;
                               uint32_t len = tr.chance(1, 40) ? static_cast<uint32_t>(kMaxPayload + 5) : tr.chance(1, 8) ? static_cast<uint32_t>(tr.range(kMaxPayload / 4, kMaxPayload)) : static_cast<uint32_t>(tr.range(0, 100));
                               log_maybe_throw(ts[t].issues, w.loggers[li].lg, li, t + 1, s, len, threw);
                               if (tr.chance(1, 50)) w.loggers[li].lg->flush_log(tr.chance(1, 2) ? 100 : 0);
                               if (tr.chance(1, 70)) { if (tr.chance(1, 2)) w.loggers[li].lg->init_backtrace(4); else w.loggers[li].lg->flush_backtrace(); }
                             }
                           });
  }
  for (auto& t : ts) t.th.join();
  if (late_thread)
  {
    // let the backend drain and fall asleep, then a thread that floods its queue and is gone before the backend wakes up
    uint64_t const mark = g_idle_cycles.load();
    for (int spin = 0; spin < 400 && g_idle_cycles.load() < mark + 2; ++spin) std::this_thread::sleep_for(std::chrono::milliseconds(1));
    std::this_thread::sleep_for(std::chrono::milliseconds(2));
    ts.emplace_back();
    T& lt = ts.back();
    uint32_t const ltid = nt + 1;
    lt.th = std::thread([&w, &lt, ltid]
                        {
                          lt.os_tid = static_cast<uint32_t>(syscall(SYS_gettid));
                          for (uint32_t s = 0; s < 120; ++s)
                          {
                            bool threw;
                            log_maybe_throw(lt.issues, w.loggers[0].lg, 0, ltid, s, 60, threw);
                          }
                        });
    lt.th.join();
    stat_add("drop_scenarios_with_a_thread_the_backend_never_saw_before_stop");
  }
  quill::Backend::stop();
  g_delay.store(0);
  std::vector<Issue> all;
  for (auto& t : ts) all.insert(all.end(), t.issues.begin(), t.issues.end());
  auto evs = recorder().snapshot();
  DeliverOpts o;
  o.prop = "C08";
  if (no_wait_at_exit) o.may_be_missing = [](Issue const&) { return true; };
  bool ok = check_delivery(w, all, evs, o, "drop_F");
  if (no_wait_at_exit) stat_add("drop_scenarios_stopped_without_waiting_for_the_queues");
  uint64_t drops = 0;
  for (auto const& is : all) if (is.res == 0) ++drops;
  if (ok && kBounded)
  {
    std::map<uint32_t, uint64_t> reported, expected;
    for (auto const& n : recorder().notes_snapshot())
    {
      unsigned long cnt = 0, t = 0;
      size_t p = n.second.find("Dropped ");
      if (p != std::string::npos && sscanf(n.second.c_str() + p, "Dropped %lu log messages from thread %lu", &cnt, &t) == 2) reported[static_cast<uint32_t>(t)] += cnt;
    }
    for (size_t t = 0; t < ts.size(); ++t)
      for (auto const& is : ts[t].issues)
        if (is.kind == 0 && is.res == 0) expected[ts[t].os_tid] += 1;
    std::set<uint32_t> tids;
    for (auto& kv : reported) tids.insert(kv.first);
    for (auto& kv : expected) tids.insert(kv.first);
    for (uint32_t t : tids)
      if (reported[t] != expected[t])
      {
        violation("C08", reported[t] < expected[t] ? "dropped-statements-not-reported" : "more-drops-reported-than-happened",
                  J{}.unum("os_thread", t).unum("reported", reported[t]).unum("discarded", expected[t]).boolean("stopped_without_waiting_for_the_queues", no_wait_at_exit).unum("threads", nt).str("scenario", "drop_F").raw("cfg", w.describe()));
        ok = false;
        break;
      }
  }
  stat_add("drop_scenarios");
  stat_add("drop_statements_attempted", static_cast<long long>(all.size()));
  stat_add("drop_statements_discarded", static_cast<long long>(drops));
  if (drops) stat_sig("drop_sigs", "F/" + std::to_string(nt) + "/" + std::to_string(w.bo.transit_events_hard_limit) + "/" + std::to_string(drops % 97));
  w.teardown_loggers();
  return ok;
}

// ================================================================================================ progress (C09)
inline bool progress_S(Rng& r, uint64_t idx)
{
  World w;
  w.tag = "pS" + std::to_string(idx);
  w.random_backend_options(r);
  // one scenario in four: the logger is stamped by a user clock that runs a day ahead (a replayed simulation). What is
  // ahead of a blocked call must still be consumed - the ordering cut-off does not apply to user clocks
  if (r.chance(1, 4)) w.user_clock_mask = 1;
  make_topology(w, r, 1, 1);
  recorder().clear();
  SRun run{w, r};
  World* wp = &w;
  SW& a = run.spawn();
  SW* ap = &a;
  uint32_t const episodes = static_cast<uint32_t>(r.range(2, 8));
  uint64_t blocked_episodes = 0, probes = 0, unformattable = 0;
  bool ok = true;
  for (uint32_t e = 0; e < episodes && ok && !run.failed; ++e)
  {
    // random history
    uint32_t h = static_cast<uint32_t>(r.range(0, 12));
    for (uint32_t i = 0; i < h; ++i)
    {
      if (a.w->parked()) { run.poll(); run.resume(a); continue; }
      uint32_t len = r.chance(1, 5) ? static_cast<uint32_t>(r.range(0, kMaxPayload / 2)) : static_cast<uint32_t>(r.range(0, 90));
      bool* okp = &ok;
      if (r.chance(1, 10))
      {
        // what is ahead of the blocked call may be a statement that cannot be formatted (user formatter throwing, also
        // through a named placeholder): it must be consumed like any other
        int const kind = static_cast<int>(r.pick({3, 4, 5, 9, 10, 11}));
        run.run_on(a, [wp, ap, kind] { log_faulty(wp->loggers[0].lg, static_cast<uint8_t>(kind), ap->tid, ap->seq++); }, "log");
        ++unformattable;
        if (r.chance(1, 2)) run.poll();
        continue;
      }
      run.run_on(a, [wp, ap, len, okp] { bool threw; log_maybe_throw(ap->issues, wp->loggers[0].lg, 0, ap->tid, ap->seq++, len, threw); (void)okp; }, "log");
      if (r.chance(1, 2)) run.poll();
    }
    // quiescence: everything consumed
    if (!run.drain("progress_S"))
    {
      if (run.no_progress && !a.w->parked())
      {
        // the backend polls but does not consume what this thread queued: a call that needs the room waits for ever
        uint32_t const len = static_cast<uint32_t>(kMaxPayload);
        if (!run.run_on(a, [wp, ap, len] { bool threw; log_maybe_throw(ap->issues, wp->loggers[0].lg, 0, ap->tid, ap->seq++, len, threw); }, "log-near-capacity"))
          violation("C09", "blocked-call-never-resumes-backend-does-not-consume-what-is-ahead", J{}.unum("tid", a.tid).unum("encoded_size", len + kOverhead).unum("limit", kLimit).str("family", "progress_S").raw("cfg", w.describe()));
      }
      ok = false;
      break;
    }
    // a statement of (almost) the full capacity: encoded size in (limit - 80, limit]
    uint32_t len = static_cast<uint32_t>(kMaxPayload - r.below(std::min<size_t>(kMaxPayload, 80)));
    if (r.chance(1, 4)) len = static_cast<uint32_t>(kMaxPayload);
    ++probes;
    size_t before = a.issues.size();
    bool completed = run.run_on(a, [wp, ap, len] { bool threw; log_maybe_throw(ap->issues, wp->loggers[0].lg, 0, ap->tid, ap->seq++, len, threw); }, "log-near-capacity");
    if (!completed) ++blocked_episodes;
    if (kDropping)
    {
      if (completed && a.issues.size() > before && a.issues.back().res != 1)
      {
        violation("C09", "dropping-queue-rejects-fitting-statement-on-empty-queue",
                  J{}.unum("encoded_size", len + kOverhead).unum("limit", kLimit).unum("episode", e).str("family", "progress_S").raw("cfg", w.describe()));
        ok = false;
        break;
      }
    }
    if (!run.drain("progress_S")) { ok = false; break; } // blocked call must resume: idle-cycle verdict inside drain
  }
  if (ok)
  {
    auto evs = recorder().snapshot();
    DeliverOpts o;
    o.prop = "C09";
    ok = check_delivery(w, run.all_issues(), evs, o, "progress_S");
    run.finish_workers();
    run.poll();
  }
  stat_add("progress_scenarios");
  if (w.user_clock_mask) stat_add("progress_scenarios_with_user_clock_loggers");
  stat_add("progress_near_capacity_requests", static_cast<long long>(probes));
  stat_add("progress_unformattable_statements_ahead_of_a_probe", static_cast<long long>(unformattable));
  stat_add("progress_blocked_episodes", static_cast<long long>(blocked_episodes));
  stat_sig("progress_sigs", std::string{kQueueName} + "/" + std::to_string(run.sig_hash));
  w.teardown_loggers();
  return ok && !run.failed;
}

inline bool progress_F(Rng& r, uint64_t idx)
{
  // real threads pushing near-capacity statements through a blocking queue; the progress verdict is in the hook glue
  World w;
  w.tag = "pF" + std::to_string(idx);
  w.random_backend_options(r);
  if (r.chance(1, 4)) w.user_clock_mask = static_cast<uint32_t>(r.range(1, 3)); // user clock a day ahead on some loggers
  make_topology(w, r, 1, 2);
  g_delay.store(static_cast<uint32_t>(r.pick({0, 1})));
  recorder().clear();
  quill::Backend::start(w.bo);
  uint32_t const nt = static_cast<uint32_t>(r.range(1, 4));
  struct T
  {
    std::thread th;
    std::vector<Issue> issues;
  };
  std::vector<T> ts(nt);
  for (uint32_t t = 0; t < nt; ++t)
  {
    uint64_t tseed = mix(r.next(), t);
    ts[t].th = std::thread([&w, &ts, t, tseed]
                           {
                             Rng tr{tseed};
                             uint32_t n = static_cast<uint32_t>(tr.range(10, 80));
                             for (uint32_t s = 0; s < n; ++s)
                             {
                               uint16_t li = static_cast<uint16_t>(tr.below(w.loggers.size()));
                               uint32_t len = tr.chance(1, 3) ? static_cast<uint32_t>(kMaxPayload - tr.below(std::min<size_t>(kMaxPayload, 60))) : static_cast<uint32_t>(tr.range(0, 200));
                               if (len > 20000) len = 20000 - static_cast<uint32_t>(tr.below(60));
                               bool threw;
                               log_maybe_throw(ts[t].issues, w.loggers[li].lg, li, t + 1, s, len, threw);
                               if (tr.chance(1, 5)) std::this_thread::sleep_for(std::chrono::microseconds(tr.below(200)));
                             }
                           });
  }
  for (auto& t : ts) t.th.join();
  quill::Backend::stop();
  g_delay.store(0);
  std::vector<Issue> all;
  for (auto& t : ts) all.insert(all.end(), t.issues.begin(), t.issues.end());
  auto evs = recorder().snapshot();
  DeliverOpts o;
  o.prop = "C09";
  bool ok = check_delivery(w, all, evs, o, "progress_F");
  stat_add("progress_scenarios");
  stat_add("progress_statements", static_cast<long long>(all.size()));
  stat_sig("progress_sigs", std::string{kQueueName} + "/F/" + std::to_string(nt) + "/" + std::to_string(idx % 50));
  w.teardown_loggers();
  return ok;
}

// ================================================================================================ levels (C16)
struct HFilter : quill::Filter
{
  uint32_t level_mask;
  uint32_t mod;
  HFilter(std::string name, uint32_t mask, uint32_t m) : quill::Filter(std::move(name)), level_mask(mask), mod(m) {}
  static bool accepts(uint32_t mask, uint32_t mod, quill::LogLevel lvl, uint32_t tid, uint32_t seq)
  {
    if (!(mask & (1u << static_cast<uint32_t>(lvl)))) return false;
    return mod == 0 || (mix(tid, seq) % mod) != 0;
  }
  bool filter(quill::MacroMetadata const*, uint64_t, std::string_view, std::string_view, std::string_view, quill::LogLevel lvl, std::string_view msg, std::string_view) noexcept override
  {
    Parsed p = parse_msg(std::string{msg});
    if (!p.ok) return true;
    return accepts(level_mask, mod, lvl, p.tid, p.seq);
  }
};

inline thread_local uint64_t tl_evals = 0;
inline std::string_view bump(std::string_view sv)
{
  ++tl_evals;
  return sv;
}

// uses the library's own macros: the argument list contains a call with a side effect
inline void log_with_real_macro(Lg* lg, quill::LogLevel lvl, bool dynamic, uint32_t tid, uint32_t seq, std::string const& pl)
{
  uint32_t const len = static_cast<uint32_t>(pl.size());
  std::string_view const sv{pl};
  if (dynamic)
  {
    LOG_DYNAMIC(lg, lvl, "{}|{}|{}|{}", tid, seq, len, bump(sv));
    return;
  }
  switch (lvl)
  {
  case quill::LogLevel::TraceL3: LOG_TRACE_L3(lg, "{}|{}|{}|{}", tid, seq, len, bump(sv)); break;
  case quill::LogLevel::TraceL2: LOG_TRACE_L2(lg, "{}|{}|{}|{}", tid, seq, len, bump(sv)); break;
  case quill::LogLevel::TraceL1: LOG_TRACE_L1(lg, "{}|{}|{}|{}", tid, seq, len, bump(sv)); break;
  case quill::LogLevel::Debug: LOG_DEBUG(lg, "{}|{}|{}|{}", tid, seq, len, bump(sv)); break;
  case quill::LogLevel::Info: LOG_INFO(lg, "{}|{}|{}|{}", tid, seq, len, bump(sv)); break;
  case quill::LogLevel::Notice: LOG_NOTICE(lg, "{}|{}|{}|{}", tid, seq, len, bump(sv)); break;
  case quill::LogLevel::Warning: LOG_WARNING(lg, "{}|{}|{}|{}", tid, seq, len, bump(sv)); break;
  case quill::LogLevel::Error: LOG_ERROR(lg, "{}|{}|{}|{}", tid, seq, len, bump(sv)); break;
  case quill::LogLevel::Critical: LOG_CRITICAL(lg, "{}|{}|{}|{}", tid, seq, len, bump(sv)); break;
  default: break;
  }
}

inline char const* level_name(quill::LogLevel l)
{
  static char const* const n[] = {"TRACE_L3", "TRACE_L2", "TRACE_L1", "DEBUG", "INFO", "NOTICE", "WARNING", "ERROR", "CRITICAL", "BACKTRACE", "NONE", "DYNAMIC"};
  return n[static_cast<uint32_t>(l)];
}

inline bool levels_S(Rng& r, uint64_t idx)
{
  World w;
  w.tag = "vS" + std::to_string(idx);
  w.random_backend_options(r);
  if (r.chance(1, 2)) w.bo.transit_event_buffer_initial_capacity = r.pick({1u, 2u}); // static and dynamic statements reuse the same slots
  uint32_t const ns = static_cast<uint32_t>(r.range(1, 3));
  std::vector<bool> has_override(ns);
  for (uint32_t i = 0; i < ns; ++i) has_override[i] = r.chance(1, 2);
  w.make_sinks(ns, [&](uint32_t i) -> std::optional<quill::PatternFormatterOptions>
               {
                 if (!has_override[i]) return std::nullopt;
                 return quill::PatternFormatterOptions{"O" + std::to_string(i) + "|%(log_level)|%(message)"};
               });
  struct SinkModel
  {
    quill::LogLevel level{quill::LogLevel::TraceL3};
    std::vector<std::pair<uint32_t, uint32_t>> filters; // (mask, mod)
  };
  std::vector<SinkModel> sm(ns);
  for (uint32_t i = 0; i < ns; ++i)
  {
    w.sinks[i]->keep_stmt.store(true);
    uint32_t nf = static_cast<uint32_t>(r.below(3));
    for (uint32_t f = 0; f < nf; ++f)
    {
      uint32_t mask = r.chance(1, 2) ? 0x1ffu : static_cast<uint32_t>(r.below(0x200));
      uint32_t mod = static_cast<uint32_t>(r.pick({0, 2, 3}));
      w.sinks[i]->add_filter(std::make_unique<HFilter>("f" + std::to_string(f), mask, mod));
      sm[i].filters.emplace_back(mask, mod);
    }
    sm[i].level = static_cast<quill::LogLevel>(r.below(9));
    w.sinks[i]->set_log_level_filter(sm[i].level);
  }
  // one sink's write_log throws for some statements (static and dynamic ones): those statements are not demanded of any
  // sink, but nothing they leave behind in the backend (reused buffer slots) may change the level or the routing of the
  // statements after them
  uint32_t const throw_mod = r.chance(1, 2) ? static_cast<uint32_t>(r.pick({3, 5, 9})) : 0;
  auto throws_on = [throw_mod](uint32_t tid, uint32_t seq) { return throw_mod && mix(tid * 7919ull + 13, seq) % throw_mod == 0; };
  if (throw_mod)
    w.sinks[r.below(ns)]->throw_if = [throws_on](std::string_view m)
    {
      Parsed p = parse_msg(std::string{m});
      return p.ok && throws_on(p.tid, p.seq);
    };
  uint32_t const nl = static_cast<uint32_t>(r.range(1, 2));
  // one scenario in three: the loggers print %(time) and differ ONLY in their timestamp pattern - "the logger's
  // pattern" includes how that logger renders the time
  bool const timed = r.chance(1, 3);
  static char const* const ts_pats[2] = {"%H:%M:%S", "%Y-%m-%d %H"};
  for (uint32_t l = 0; l < nl; ++l)
  {
    std::vector<uint32_t> idxs;
    for (uint32_t i = 0; i < ns; ++i) if (r.chance(2, 3) || idxs.empty()) idxs.push_back(i);
    if (timed) w.make_logger(idxs, quill::PatternFormatterOptions{"L|%(time)|%(log_level)|%(message)", ts_pats[l], quill::Timezone::GmtTime});
    else w.make_logger(idxs, quill::PatternFormatterOptions{"L|%(log_level)|%(message)"});
  }
  recorder().clear();
  SRun run{w, r};
  World* wp = &w;
  uint32_t const nw = static_cast<uint32_t>(r.range(1, 3));
  for (uint32_t i = 0; i < nw; ++i) run.spawn();
  struct Exp
  {
    Issue is;
    std::vector<quill::LogLevel> sink_levels; // sink thresholds in force when the statement is processed (exact: changed at quiescent points)
  };
  std::vector<Exp> exps;
  std::vector<quill::LogLevel> logger_level(nl, quill::LogLevel::TraceL3);
  uint32_t const steps = static_cast<uint32_t>(r.range(40, 250));
  bool ok = true;
  uint64_t not_evaluated = 0, dyn = 0, sink_throws = 0, dyn_bt = 0;
  // half of the scenarios initialise the backtrace ring of every logger (flush level None, never flushed here)
  if (r.chance(1, 2))
  {
    SW& s0 = *run.ws[0];
    for (uint32_t l = 0; l < nl; ++l)
    {
      run.run_on(s0, [wp, l] { tl_control_op = true; wp->loggers[l].lg->init_backtrace(2, quill::LogLevel::None); tl_control_op = false; }, "init_backtrace");
      if (s0.w->parked() && !run.wait_for(s0, "levels_S")) break;
    }
    run.drain("levels_S");
  }
  for (uint32_t st = 0; st < steps && ok && !run.failed; ++st)
  {
    uint64_t x = r.below(100);
    if (x < 20) { run.poll(); continue; }
    auto parked = run.parked_workers();
    if (!parked.empty() && x < 30) { run.poll(); run.resume(*parked[r.below(parked.size())]); continue; }
    auto idle = run.idle_workers();
    if (idle.empty()) { run.poll(); continue; }
    SW& s = *idle[r.below(idle.size())];
    SW* sp = &s;
    if (x < 36)
    {
      // logger level change on a logging thread: exact "moment of the call"
      uint32_t l = static_cast<uint32_t>(r.below(nl));
      quill::LogLevel nlvl = r.chance(1, 10) ? quill::LogLevel::None : static_cast<quill::LogLevel>(r.below(9));
      run.run_on(s, [wp, l, nlvl] { wp->loggers[l].lg->set_log_level(nlvl); }, "set_log_level");
      logger_level[l] = nlvl;
      continue;
    }
    if (x < 40)
    {
      // sink level change at a flush-quiescent point (exact)
      if (!run.drain("levels_S")) { ok = false; break; }
      uint32_t i = static_cast<uint32_t>(r.below(ns));
      sm[i].level = static_cast<quill::LogLevel>(r.below(9));
      w.sinks[i]->set_log_level_filter(sm[i].level);
      continue;
    }
    uint16_t li = static_cast<uint16_t>(r.below(nl));
    quill::LogLevel lvl = static_cast<quill::LogLevel>(r.below(9));
    bool dynamic = r.chance(1, 3);
    if (dynamic) ++dyn;
    // a run-time level may also be Backtrace: the statement is held back (or, without init_backtrace, reported as an
    // error), never written - and whatever it leaves in the reused backend slot must not change the level of the next one
    bool const dyn_backtrace = dynamic && r.chance(1, 6);
    if (dyn_backtrace) { lvl = quill::LogLevel::Backtrace; ++dyn_bt; }
    uint32_t seq = s.seq++;
    uint32_t len = static_cast<uint32_t>(r.range(0, 40));
    bool evaluated = false;
    bool* ev = &evaluated;
    run.run_on(s, [wp, sp, li, lvl, dynamic, seq, len, ev]
               {
                 std::string pl = payload(sp->tid, seq, len);
                 uint64_t before = tl_evals;
                 log_with_real_macro(wp->loggers[li].lg, lvl, dynamic, sp->tid, seq, pl);
                 *ev = tl_evals != before;
               },
               "log");
    if (s.w->parked())
    {
      // blocked mid-call: the argument was already evaluated; finish the call before looking at the flag
      if (!run.wait_for(s, "levels_S")) { ok = false; break; }
    }
    bool const should = lvl >= logger_level[li];
    if (evaluated != should)
    {
      violation("C16", should ? "statement-at-or-above-logger-level-not-logged" : "arguments-evaluated-below-logger-level",
                J{}.str("level", level_name(lvl)).str("logger_level", level_name(logger_level[li])).boolean("dynamic", dynamic).str("scenario", "levels_S").raw("cfg", w.describe()));
      ok = false;
      break;
    }
    if (!should) { ++not_evaluated; continue; }
    if (dyn_backtrace) continue; // enqueued, but demanded of no sink (a delivery would be reported as unknown statement)
    Exp e;
    e.is.tid = s.tid; e.is.seq = seq; e.is.logger = li; e.is.level = lvl; e.is.len = len; e.is.res = 1; e.is.dynamic = dynamic;
    for (auto const& m : sm) e.sink_levels.push_back(m.level);
    exps.push_back(e);
  }
  ok = ok && !run.failed && run.drain("levels_S");
  if (ok)
  {
    auto evs = recorder().snapshot();
    std::vector<Issue> all;
    std::map<std::pair<uint32_t, uint32_t>, Exp const*> by_id;
    for (auto const& e : exps) { all.push_back(e.is); by_id[{e.is.tid, e.is.seq}] = &e; }
    DeliverOpts o;
    o.prop = "C16";
    o.sink_accepts = [&](Issue const& is, uint32_t si)
    {
      Exp const* e = by_id[{is.tid, is.seq}];
      if (is.level < e->sink_levels[si]) return false;
      for (auto const& f : sm[si].filters) if (!HFilter::accepts(f.first, f.second, is.level, is.tid, is.seq)) return false;
      return true;
    };
    o.may_be_missing = [&](Issue const& is) { return throws_on(is.tid, is.seq); };
    ok = check_delivery(w, all, evs, o, "levels_S");
    for (auto const& e : evs) if (e.kind == 'x') ++sink_throws;
    // level, description and per-sink pattern of what was written
    for (auto const& e : evs)
    {
      if (!ok) break;
      if (e.kind != 'w' || e.sink < w.sink_id_base || e.sink >= w.sink_id_base + ns) continue;
      Parsed p = parse_msg(e.msg);
      if (!p.ok) continue;
      auto it = by_id.find({p.tid, p.seq});
      if (it == by_id.end()) continue;
      Issue const& is = it->second->is;
      uint32_t si = w.sink_index_of(e.sink);
      if (e.level != is.level || e.level_desc != level_name(is.level))
      {
        violation("C16", "statement-reported-with-wrong-level", J{}.str("given", level_name(is.level)).str("reported", level_name(e.level)).str("reported_description", e.level_desc).boolean("dynamic", is.dynamic).unum("tid", p.tid).unum("seq", p.seq).str("scenario", "levels_S").raw("cfg", w.describe()));
        ok = false;
        break;
      }
      std::string tpart;
      if (timed && !has_override[si])
      {
        time_t const secs = static_cast<time_t>(e.ts / 1000000000ull);
        tm g{};
        gmtime_r(&secs, &g);
        char tb[64];
        strftime(tb, sizeof tb, ts_pats[is.logger], &g);
        tpart = std::string{tb} + "|";
      }
      std::string want = (has_override[si] ? "O" + std::to_string(si) : std::string{"L"}) + "|" + tpart + level_name(is.level) + "|" + e.msg + "\n";
      if (e.stmt != want)
      {
        violation("C16", "sink-line-not-formatted-with-its-own-pattern", J{}.unum("sink", si).boolean("sink_has_override", has_override[si]).str("got", e.stmt.substr(0, 100)).str("want", want.substr(0, 100)).str("scenario", "levels_S").raw("cfg", w.describe()));
        ok = false;
        break;
      }
    }
    run.finish_workers();
    run.poll();
  }
  stat_add("levels_scenarios");
  if (timed && nl == 2) stat_add("levels_scenarios_with_loggers_differing_only_in_timestamp_pattern");
  stat_add("levels_statements_enqueued", static_cast<long long>(exps.size()));
  stat_add("levels_statements_not_evaluated", static_cast<long long>(not_evaluated));
  stat_add("levels_dynamic_statements", static_cast<long long>(dyn));
  stat_add("levels_dynamic_statements_with_level_backtrace", static_cast<long long>(dyn_bt));
  stat_add("levels_sink_write_throws", static_cast<long long>(sink_throws));
  stat_sig("levels_sigs", std::to_string(run.sig_hash));
  w.teardown_loggers();
  return ok && !run.failed;
}

// rejects every statement of one (harness) thread id, accepts everything else
struct TidFilter : quill::Filter
{
  uint32_t reject_tid;
  TidFilter(std::string name, uint32_t t) : quill::Filter(std::move(name)), reject_tid(t) {}
  bool filter(quill::MacroMetadata const*, uint64_t, std::string_view, std::string_view, std::string_view, quill::LogLevel, std::string_view msg, std::string_view) noexcept override
  {
    Parsed p = parse_msg(std::string{msg});
    return !p.ok || p.tid != reject_tid;
  }
};

// mode F: logger level and sink thresholds are changed from another thread while several threads log; for a statement
// either value that was current during the call interval is accepted ("interval rule")
inline bool levels_F(Rng& r, uint64_t idx)
{
  World w;
  w.tag = "vF" + std::to_string(idx);
  w.random_backend_options(r);
  uint32_t const ns = static_cast<uint32_t>(r.range(1, 2));
  w.make_sinks(ns);
  w.make_logger(ns == 1 ? std::vector<uint32_t>{0} : std::vector<uint32_t>{0, 1});
  quill::LogLevel const la = static_cast<quill::LogLevel>(r.below(9)), lb = static_cast<quill::LogLevel>(r.below(9));
  quill::LogLevel const lmin = std::min(la, lb), lmax = std::max(la, lb);
  std::vector<std::pair<quill::LogLevel, quill::LogLevel>> sl;
  for (uint32_t i = 0; i < ns; ++i)
  {
    quill::LogLevel a = static_cast<quill::LogLevel>(r.below(9)), b = r.chance(1, 2) ? a : static_cast<quill::LogLevel>(r.below(9));
    sl.emplace_back(std::min(a, b), std::max(a, b));
    w.sinks[i]->set_log_level_filter(a);
  }
  w.loggers[0].lg->set_log_level(la);
  g_delay.store(static_cast<uint32_t>(r.pick({0, 1})));
  recorder().clear();
  quill::Backend::start(w.bo);
  std::atomic<bool> stop{false};
  // filters are attached while the statements flow (bursts of add_filter() calls, so that one lands while the backend is
  // still taking over the previous one). Filter k rejects exactly the statements of harness thread 100+k, which only
  // logs in the second phase - after everything is quiescent EVERY attached filter must be consulted.
  std::atomic<uint32_t> filters_added{0};
  std::thread changer([&]
                      {
                        Rng cr{mix(idx, 991)};
                        while (!stop.load())
                        {
                          w.loggers[0].lg->set_log_level(cr.chance(1, 2) ? la : lb);
                          for (uint32_t i = 0; i < ns; ++i) w.sinks[i]->set_log_level_filter(cr.chance(1, 2) ? sl[i].first : sl[i].second);
                          if (cr.chance(1, 5) && filters_added.load() < 8)
                          {
                            uint32_t const burst = static_cast<uint32_t>(cr.range(1, 3));
                            for (uint32_t b = 0; b < burst && filters_added.load() < 8; ++b)
                            {
                              uint32_t const k = filters_added.load();
                              for (uint32_t i = 0; i < ns; ++i) w.sinks[i]->add_filter(std::make_unique<TidFilter>("g" + std::to_string(k), 100 + k));
                              filters_added.store(k + 1);
                              if (cr.chance(1, 2)) std::this_thread::sleep_for(std::chrono::microseconds(cr.below(30)));
                            }
                          }
                          std::this_thread::sleep_for(std::chrono::microseconds(cr.below(80)));
                        }
                      });
  uint32_t const nt = static_cast<uint32_t>(r.range(2, 4));
  struct T
  {
    std::thread th;
    std::vector<Issue> issues;
    bool bad{false};
  };
  std::vector<T> ts(nt);
  for (uint32_t t = 0; t < nt; ++t)
  {
    uint64_t tseed = mix(r.next(), t);
    ts[t].th = std::thread([&, t, tseed]
                           {
                             Rng tr{tseed};
                             uint32_t n = static_cast<uint32_t>(tr.range(50, 300));
                             for (uint32_t s = 0; s < n && !ts[t].bad; ++s)
                             {
                               quill::LogLevel lvl = static_cast<quill::LogLevel>(tr.below(9));
                               bool dynamic = tr.chance(1, 3);
                               uint32_t len = static_cast<uint32_t>(tr.range(0, 30));
                               std::string pl = payload(t + 1, s, len);
                               uint64_t before = tl_evals;
                               log_with_real_macro(w.loggers[0].lg, lvl, dynamic, t + 1, s, pl);
                               bool evaluated = tl_evals != before;
                               if ((lvl >= lmax && !evaluated) || (lvl < lmin && evaluated))
                               {
                                 violation("C16", evaluated ? "arguments-evaluated-below-logger-level" : "statement-at-or-above-logger-level-not-logged",
                                           J{}.str("level", level_name(lvl)).str("logger_level_a", level_name(la)).str("logger_level_b", level_name(lb)).boolean("dynamic", dynamic).str("scenario", "levels_F"));
                                 ts[t].bad = true;
                               }
                               if (evaluated)
                               {
                                 Issue is;
                                 is.tid = t + 1; is.seq = s; is.logger = 0; is.level = lvl; is.len = len; is.res = 1; is.dynamic = dynamic;
                                 ts[t].issues.push_back(is);
                               }
                             }
                           });
  }
  for (auto& t : ts) t.th.join();
  stop.store(true);
  changer.join();
  // second phase: quiescent, every threshold at its lowest; one statement per attached filter that this filter rejects
  // (and one from a thread no filter knows)
  uint32_t const nfilters = filters_added.load();
  std::vector<Issue> phase2;
  {
    // quiescence that does not lean on flush_log()'s cross-thread clause: stop() drains every queue, then a new backend
    quill::Backend::stop();
    quill::Backend::start(w.bo);
    w.loggers[0].lg->set_log_level(quill::LogLevel::TraceL3);
    for (uint32_t i = 0; i < ns; ++i) w.sinks[i]->set_log_level_filter(quill::LogLevel::TraceL3);
    for (uint32_t k = 0; k <= 8; ++k)
    {
      uint32_t const tid = k == 8 ? 99 : 100 + k;
      for (uint32_t q = 0; q < 2; ++q) issue_std(phase2, w.loggers[0].lg, 0, quill::LogLevel::Critical, tid, q, 5);
    }
    w.loggers[0].lg->flush_log(0);
  }
  quill::Backend::stop();
  g_delay.store(0);
  bool ok = true;
  std::vector<Issue> all;
  for (auto& t : ts) { all.insert(all.end(), t.issues.begin(), t.issues.end()); if (t.bad) ok = false; }
  all.insert(all.end(), phase2.begin(), phase2.end());
  if (ok)
  {
    auto evs = recorder().snapshot();
    DeliverOpts o;
    o.prop = "C16";
    // the sink threshold is read when the backend processes the statement: either value may be in force
    std::function<bool(Issue const&, uint32_t)> acc = [&](Issue const& is, uint32_t si)
    {
      if (is.tid >= 99) return is.tid == 99 || is.tid - 100 >= nfilters; // second phase: rejected iff its filter was attached
      return is.level >= sl[si].first;
    };
    o.sink_accepts = acc;
    // optional = between the two thresholds of SOME sink of the logger; checked per sink below
    o.may_be_missing = [&](Issue const& is)
    {
      if (is.tid >= 99) return false;
      for (uint32_t si = 0; si < ns; ++si) if (is.level >= sl[si].first && is.level < sl[si].second) return true;
      return false;
    };
    ok = check_delivery(w, all, evs, o, "levels_F");
    stat_add("levels_filters_attached_while_logging", nfilters);
    if (ok)
    {
      // a statement at or above a sink's higher threshold must be on that sink (may_be_missing above is per logger)
      EvIndex ix{w, evs};
      for (auto const& is : all)
        for (uint32_t si = 0; si < ns && ok; ++si)
          if (is.tid < 99 && is.level >= sl[si].second && !ix.write_g.count(std::make_tuple(si, is.tid, is.seq)))
          {
            violation("C16", "statement-at-or-above-sink-level-not-written", J{}.unum("sink", si).str("level", level_name(is.level)).unum("tid", is.tid).unum("seq", is.seq).str("scenario", "levels_F"));
            ok = false;
          }
      for (auto const& e : evs)
      {
        if (!ok) break;
        if (e.kind != 'w' || e.sink < w.sink_id_base || e.sink >= w.sink_id_base + ns) continue;
        Parsed p = parse_msg(e.msg);
        if (!p.ok) continue;
        for (auto const& is : all)
          if (is.tid == p.tid && is.seq == p.seq && (e.level != is.level || e.level_desc != level_name(is.level)))
          {
            violation("C16", "statement-reported-with-wrong-level", J{}.str("given", level_name(is.level)).str("reported", level_name(e.level)).boolean("dynamic", is.dynamic).str("scenario", "levels_F"));
            ok = false;
            break;
          }
      }
    }
  }
  stat_add("levels_scenarios");
  stat_add("levels_statements_enqueued", static_cast<long long>(all.size()));
  stat_sig("levels_sigs", "F/" + std::to_string(static_cast<int>(la)) + "/" + std::to_string(static_cast<int>(lb)) + "/" + std::to_string(nt) + "/" + std::to_string(ns) + "/" + std::to_string(idx % 40));
  w.teardown_loggers();
  return ok;
}

// ================================================================================================ lines (C12 end to end)
inline bool lines_S(Rng& r, uint64_t idx)
{
  World w;
  w.tag = "nS" + std::to_string(idx);
  w.random_backend_options(r);
  // sinks 0 / 1: the plain sinks of the two loggers; 2 and 4 carry an override pattern and are attached BEFORE the plain
  // ones, 3 and 5 are further plain sinks attached after them: every sink gets the line of its own pattern
  w.make_sinks(6, [&](uint32_t i) -> std::optional<quill::PatternFormatterOptions>
               {
                 if (i != 2 && i != 4) return std::nullopt;
                 return quill::PatternFormatterOptions{"O" + std::to_string(i) + "|%(message)|%(log_level_short_code)|%(logger)", "%H:%M:%S.%Qns", quill::Timezone::GmtTime, i == 2};
               });
  for (auto& sk : w.sinks) sk->keep_stmt.store(true);
  quill::PatternFormatterOptions on{"P|%(logger)|%(log_level_short_code)|%(message)|Q", "%H:%M:%S.%Qns", quill::Timezone::GmtTime, true};
  quill::PatternFormatterOptions off{"P|%(logger)|%(log_level_short_code)|%(message)|Q", "%H:%M:%S.%Qns", quill::Timezone::GmtTime, false};
  w.make_logger({2, 0, 3}, on);
  w.make_logger({4, 1, 5}, off);
  recorder().clear();
  SRun run{w, r};
  World* wp = &w;
  SW& a = run.spawn();
  uint32_t const n = static_cast<uint32_t>(r.range(10, 60));
  std::vector<std::pair<uint16_t, std::string>> sent;
  sent.reserve(256);
  // called twice: before and AFTER the statements with named arguments / tags / runtime metadata below (the backend's
  // per-thread buffer slots are recycled: a slot that carried named arguments is later filled by a plain multi-line one)
  auto log_lines = [&](uint32_t count)
  {
  for (uint32_t i = 0; i < count && !run.failed; ++i)
  {
    // every arrangement of newlines: leading, trailing, doubled, only newlines, empty
    std::string m;
    uint32_t parts = static_cast<uint32_t>(r.below(5));
    for (uint32_t p = 0; p < parts; ++p)
    {
      uint64_t x = r.below(6);
      if (x < 2) m += "\n";
      else if (x == 2) m += "\n\n";
      else m += "w" + std::to_string(r.below(1000));
    }
    if (r.chance(1, 6)) m += "\n";
    uint16_t li = static_cast<uint16_t>(r.below(2));
    sent.emplace_back(li, m);
    std::string const* mp = &sent.back().second;
    std::string mcopy = m;
    if (a.w->parked()) { run.poll(); run.resume(a); }
    run.run_on(a, [wp, li, mcopy] { LOG_INFO(wp->loggers[li].lg, "{}", mcopy); }, "log");
    (void)mp;
    if (r.chance(1, 3)) run.poll();
  }
  };
  log_lines(n);
  // ---- metadata attributes end to end: runtime-supplied source metadata, tags, named args in the pattern
  std::vector<std::string> meta_want;
  {
    uint32_t id = World::next_sink_id()++;
    auto msink = std::static_pointer_cast<RecSink>(Fe::create_or_get_sink<RecSink>(w.tag + "_meta", id));
    msink->keep_stmt.store(true);
    w.sinks.push_back(msink);
    quill::PatternFormatterOptions mp{"M|%(file_name)|%(line_number)|%(caller_function)|%(short_source_location)|%(log_level)|%(tags)|%(named_args)|%(message)|E", "%H:%M:%S.%Qns", quill::Timezone::GmtTime, false};
    w.make_logger({static_cast<uint32_t>(w.sinks.size() - 1)}, mp);
    Lg* ml = w.loggers.back().lg;
    std::vector<std::string>* mw = &meta_want;
    uint32_t const nm = static_cast<uint32_t>(r.range(6, 30));
    for (uint32_t i = 0; i < nm && !run.failed; ++i)
    {
      if (a.w->parked()) { run.poll(); run.resume(a); }
      if (a.w->parked()) continue;
      uint64_t const kind = r.below(3);
      int const x = static_cast<int>(r.below(100000));
      int const y = static_cast<int>(r.below(1000));
      std::string const dirs = r.pick({"", "src/", "/abs/dir/sub/", "/build/ws:debug/src/", "C:/proj/src/", "a:b/"}); // colons inside the path too
      std::string const fname = "file" + std::to_string(r.below(5)) + ".cpp";
      int const line = static_cast<int>(r.range(1, 99999));
      std::string const func = "func" + std::to_string(r.below(4));
      quill::LogLevel const lvl = r.pick({quill::LogLevel::Debug, quill::LogLevel::Info, quill::LogLevel::Error});
      run.run_on(a, [ml, mw, kind, x, y, dirs, fname, line, func, lvl]
                 {
                   if (kind == 0)
                   {
                     std::string const path = dirs + fname;
                     LOG_RUNTIME_METADATA(ml, lvl, path.c_str(), line, func.c_str(), "rt {} {}", x, y);
                     mw->push_back("M|" + fname + "|" + std::to_string(line) + "|" + func + "|" + fname + ":" + std::to_string(line) + "|" + level_name(lvl) + "|||rt " + std::to_string(x) + " " + std::to_string(y) + "|E\n");
                   }
                   else if (kind == 1)
                   {
                     char const* const fn = __FUNCTION__;
                     int const ln = __LINE__ + 1;
                     LOG_WARNING_TAGS(ml, TAGS("t1", "t2"), "tag {}", x);
                     mw->push_back(std::string{"M|fam_more2.h|"} + std::to_string(ln) + "|" + fn + "|fam_more2.h:" + std::to_string(ln) + "|WARNING|#t1 #t2 ||tag " + std::to_string(x) + "|E\n");
                   }
                   else
                   {
                     char const* const fn = __FUNCTION__;
                     int const ln = __LINE__ + 1;
                     LOG_INFO(ml, "na {alpha} {beta:>4}", x, y);
                     mw->push_back(std::string{"M|fam_more2.h|"} + std::to_string(ln) + "|" + fn + "|fam_more2.h:" + std::to_string(ln) + "|INFO||alpha: " + std::to_string(x) + ", beta: " + fmtquill::format("{:>4}", y) + "|na " + std::to_string(x) + " " + fmtquill::format("{:>4}", y) + "|E\n");
                   }
                 },
                 "log-meta");
      if (r.chance(1, 3)) run.poll();
    }
  }
  log_lines(static_cast<uint32_t>(r.range(5, 40)));
  // ---- two loggers with the SAME pattern (time printed with a spec) but different timestamp patterns and zones of
  // the same instant: each line carries its own logger's rendering of the statement's timestamp
  std::vector<uint32_t> tsink_ids;
  std::vector<Lg*> time_loggers;
  {
    char const* const tspat[2] = {"%Y-%m-%d", "%H:%M:%S"};
    for (int k = 0; k < 2; ++k)
    {
      uint32_t id = World::next_sink_id()++;
      auto tsink = std::static_pointer_cast<RecSink>(Fe::create_or_get_sink<RecSink>(w.tag + "_time" + std::to_string(k), id));
      tsink->keep_stmt.store(true);
      tsink_ids.push_back(id);
      quill::PatternFormatterOptions tp{"T|%(time:>12)|%(message)", tspat[k], quill::Timezone::GmtTime, false};
      Lg* tl = Fe::create_or_get_logger(w.tag + "_tl" + std::to_string(k), tsink, tp, quill::ClockSourceType::System);
      time_loggers.push_back(tl);
      for (int i = 0; i < 2 && !run.failed; ++i)
      {
        if (a.w->parked()) { run.poll(); run.resume(a); }
        if (a.w->parked()) continue;
        int const v = static_cast<int>(r.below(1000));
        run.run_on(a, [tl, v] { LOG_INFO(tl, "t {}", v); }, "log-time");
        if (r.chance(1, 2)) run.poll();
      }
    }
  }
  bool ok = !run.failed && run.drain("lines_S");
  if (ok)
  {
    auto evs = recorder().snapshot();
    for (int k = 0; k < 2 && ok; ++k)
      for (auto const& e : evs)
      {
        if (e.kind != 'w' || e.sink != tsink_ids[static_cast<size_t>(k)]) continue;
        time_t const secs = static_cast<time_t>(e.ts / 1000000000ull);
        tm g{};
        gmtime_r(&secs, &g);
        char buf[64];
        strftime(buf, sizeof buf, k == 0 ? "%Y-%m-%d" : "%H:%M:%S", &g);
        std::string const want = "T|" + fmtquill::format("{:>12}", buf) + "|" + e.msg + "\n";
        if (e.stmt != want)
        {
          violation("C12", "time-attribute-not-rendered-with-the-loggers-own-timestamp-pattern", J{}.num("logger", k).str("got", e.stmt.substr(0, 120)).str("want", want.substr(0, 120)).str("scenario", "lines_S"));
          ok = false;
          break;
        }
      }
    {
      std::vector<std::string> mgot;
      for (auto const& e : evs)
        if (e.kind == 'w' && e.sink == w.sinks.back()->id()) mgot.push_back(e.stmt);
      size_t i = 0;
      while (i < mgot.size() && i < meta_want.size() && mgot[i] == meta_want[i]) ++i;
      if (i != mgot.size() || i != meta_want.size())
      {
        violation("C12", "metadata-attributes-differ-end-to-end",
                  J{}.unum("first_difference_at", i).str("got", i < mgot.size() ? mgot[i] : "<none>").str("want", i < meta_want.size() ? meta_want[i] : "<none>").unum("got_lines", mgot.size()).unum("want_lines", meta_want.size()).str("scenario", "lines_S"));
        ok = false;
      }
    }
    std::vector<std::string> got[6];
    for (auto const& e : evs)
      if (e.kind == 'w' && e.sink >= w.sink_id_base && e.sink < w.sink_id_base + 6) got[e.sink - w.sink_id_base].push_back(e.stmt);
    std::vector<std::string> want[6];
    for (auto const& s : sent)
    {
      std::string const& lname = w.loggers[s.first].name;
      std::string const& m = s.second;
      // the message lines the statement yields for this logger
      std::vector<std::string> parts;
      if (s.first == 0)
      {
        // one complete line per message line; a single trailing newline does not add an empty line; empty -> one line
        if (m.empty()) parts.push_back("");
        size_t start = 0;
        while (start < m.size())
        {
          size_t end = m.find('\n', start);
          if (end == std::string::npos) { parts.push_back(m.substr(start)); break; }
          parts.push_back(m.substr(start, end - start));
          start = end + 1;
        }
      }
      else
      {
        std::string t = m;
        if (!t.empty() && t.back() == '\n') t.pop_back();
        parts.push_back(t);
      }
      for (uint32_t si : w.loggers[s.first].sinks)
        for (auto const& part : parts)
          want[si].push_back((si == 2 || si == 4) ? "O" + std::to_string(si) + "|" + part + "|I|" + lname + "\n" : "P|" + lname + "|I|" + part + "|Q\n");
    }
    for (int k = 0; k < 6 && ok; ++k)
    {
      size_t i = 0;
      while (i < got[k].size() && i < want[k].size() && got[k][i] == want[k][i]) ++i;
      if (i != got[k].size() || i != want[k].size())
      {
        violation("C12", (k == 2 || k == 4) ? "sink-with-override-pattern-gets-other-line" : (k == 3 || k == 5) ? "plain-sink-after-override-sink-gets-other-line" : k == 0 ? "multi-line-statement-lines-differ" : "single-statement-with-newlines-differs",
                  J{}.num("sink", k).unum("first_difference_at", i).str("got", i < got[k].size() ? got[k][i] : "<none>").str("want", i < want[k].size() ? want[k][i] : "<none>").unum("got_lines", got[k].size()).unum("want_lines", want[k].size()).boolean("add_metadata_to_multi_line_logs", k == 0 || k == 2 || k == 3).str("scenario", "lines_S"));
        ok = false;
      }
    }
    run.finish_workers();
    run.poll();
  }
  for (Lg* tl : time_loggers) Fe::remove_logger(tl);
  stat_add("lines_scenarios");
  stat_add("lines_statements", static_cast<long long>(sent.size() + meta_want.size()));
  stat_sig("lines_sigs", std::to_string(run.sig_hash));
  w.teardown_loggers();
  return ok && !run.failed;
}
} // namespace e2e
#include "e2e/fam_life.h"
