// Allocation observation without hooks: the harness executable defines mmap/munmap (and, on request, the malloc
// family and operator new) itself; calls from quill's header code compiled into the same executable bind to these.
// Counters are thread-local and only count while the thread has armed them.
// Not usable together with ASan/TSan (their runtimes own these symbols): VF_CAN_INTERPOSE is 0 there.
#pragma once
#include <cstddef>
#include <cstdint>
#include <cstdlib>
#include <new>
#include <sys/mman.h>
#include <sys/syscall.h>
#include <unistd.h>

#if defined(__SANITIZE_ADDRESS__) || defined(__SANITIZE_THREAD__)
  #define VF_CAN_INTERPOSE 0
#else
  #define VF_CAN_INTERPOSE 1
#endif

namespace vf
{
struct AllocCounters
{
  bool armed{false};
  uint64_t heap_allocs{0};
  uint64_t heap_bytes{0};
  uint64_t mmaps{0};
  uint64_t munmaps{0};
  uint64_t mmap_bytes_live{0};
  uint64_t mmap_max_len{0};
  void reset() { *this = AllocCounters{}; }
};
inline AllocCounters& tl_alloc()
{
  static thread_local AllocCounters c;
  return c;
}
struct ArmAlloc
{
  bool prev;
  ArmAlloc() : prev(tl_alloc().armed) { tl_alloc().armed = true; }
  ~ArmAlloc() { tl_alloc().armed = prev; }
};
} // namespace vf

#if VF_CAN_INTERPOSE && defined(VF_INTERPOSE_MMAP)
extern "C" void* mmap(void* addr, size_t len, int prot, int flags, int fd, off_t off) noexcept
{
  void* p = reinterpret_cast<void*>(syscall(SYS_mmap, addr, len, prot, flags, fd, off));
  auto& c = vf::tl_alloc();
  if (c.armed && p != MAP_FAILED)
  {
    ++c.mmaps;
    c.mmap_bytes_live += len;
    if (len > c.mmap_max_len) c.mmap_max_len = len;
  }
  return p;
}
extern "C" int munmap(void* addr, size_t len) noexcept
{
  auto& c = vf::tl_alloc();
  if (c.armed)
  {
    ++c.munmaps;
    c.mmap_bytes_live -= len;
  }
  return static_cast<int>(syscall(SYS_munmap, addr, len));
}
#endif

#if VF_CAN_INTERPOSE && defined(VF_INTERPOSE_MALLOC)
extern "C"
{
  void* __libc_malloc(size_t);
  void* __libc_calloc(size_t, size_t);
  void* __libc_realloc(void*, size_t);
  void* __libc_memalign(size_t, size_t);
  void __libc_free(void*);

  void* malloc(size_t n)
  {
    auto& c = vf::tl_alloc();
    if (c.armed) { ++c.heap_allocs; c.heap_bytes += n; }
    return __libc_malloc(n);
  }
  void* calloc(size_t a, size_t b)
  {
    auto& c = vf::tl_alloc();
    if (c.armed) { ++c.heap_allocs; c.heap_bytes += a * b; }
    return __libc_calloc(a, b);
  }
  void* realloc(void* p, size_t n)
  {
    auto& c = vf::tl_alloc();
    if (c.armed) { ++c.heap_allocs; c.heap_bytes += n; }
    return __libc_realloc(p, n);
  }
  void* memalign(size_t al, size_t n)
  {
    auto& c = vf::tl_alloc();
    if (c.armed) { ++c.heap_allocs; c.heap_bytes += n; }
    return __libc_memalign(al, n);
  }
  void* aligned_alloc(size_t al, size_t n)
  {
    auto& c = vf::tl_alloc();
    if (c.armed) { ++c.heap_allocs; c.heap_bytes += n; }
    return __libc_memalign(al, n);
  }
  int posix_memalign(void** out, size_t al, size_t n)
  {
    auto& c = vf::tl_alloc();
    if (c.armed) { ++c.heap_allocs; c.heap_bytes += n; }
    void* p = __libc_memalign(al, n);
    if (!p) return 12;
    *out = p;
    return 0;
  }
  void free(void* p) { __libc_free(p); }
}
// operator new forwards to malloc in libstdc++, so it is counted through malloc above.
#endif
