// Recording sink (public quill::Sink API only), global ticket counter, sink-event log, notifier capture.
#pragma once
#include "common/util.h"
#include "quill/core/LogLevel.h"
#include "quill/core/MacroMetadata.h"
#include "quill/sinks/Sink.h"

#include <atomic>
#include <functional>
#include <mutex>
#include <stdexcept>
#include <string>
#include <vector>

namespace vf
{
// One global ticket counter: relaxed fetch_add between compiler barriers (no monitor-induced happens-before under
// TSan; on x86 the locked instruction is totally ordered with the surrounding accesses, which is all the
// "returned before invoked" comparison needs).
inline std::atomic<uint64_t> g_ticket{1};
inline uint64_t ticket()
{
  asm volatile("" ::: "memory");
  uint64_t t = g_ticket.fetch_add(1, std::memory_order_relaxed);
  asm volatile("" ::: "memory");
  return t;
}

struct SinkEv
{
  uint64_t g{0};
  uint32_t sink{0};
  char kind{'w'}; // w write, f flush, d destroyed, x write call that threw (throw_if)
  std::string logger;
  quill::LogLevel level{quill::LogLevel::None};
  std::string level_desc;
  uint64_t ts{0};
  std::string thread_id;
  std::string msg;
  std::string stmt;
  std::vector<std::pair<std::string, std::string>> named;
  bool has_named{false};
  quill::MacroMetadata const* md{nullptr};
};

struct Recorder
{
  std::mutex mu;
  std::vector<SinkEv> evs;
  std::vector<std::pair<uint64_t, std::string>> notes; // error notifier messages
  void add(SinkEv&& e)
  {
    std::lock_guard<std::mutex> g{mu};
    evs.push_back(std::move(e));
  }
  void note(std::string const& s)
  {
    uint64_t t = ticket();
    std::lock_guard<std::mutex> g{mu};
    notes.emplace_back(t, s);
  }
  void clear()
  {
    std::lock_guard<std::mutex> g{mu};
    evs.clear();
    notes.clear();
  }
  std::vector<SinkEv> snapshot()
  {
    std::lock_guard<std::mutex> g{mu};
    return evs;
  }
  std::vector<std::pair<uint64_t, std::string>> notes_snapshot()
  {
    std::lock_guard<std::mutex> g{mu};
    return notes;
  }
};
inline Recorder& recorder()
{
  // never destroyed: quill's singletons flush their sinks during static destruction
  static Recorder* r = new Recorder;
  return *r;
}

struct SinkThrow : std::runtime_error
{
  using std::runtime_error::runtime_error;
};

class RecSink : public quill::Sink
{
public:
  explicit RecSink(uint32_t id, std::optional<quill::PatternFormatterOptions> ov = std::nullopt) : quill::Sink(std::move(ov)), _id(id) {}
  ~RecSink() override
  {
    SinkEv e;
    e.g = ticket();
    e.sink = _id;
    e.kind = 'd';
    recorder().add(std::move(e));
  }
  uint32_t id() const { return _id; }
  // scripting (set before the statements are issued; read by the backend thread only)
  std::atomic<int64_t> throw_on_write{-1}; // 0-based call index that throws
  std::atomic<int64_t> throw_on_flush{-1};
  std::atomic<int64_t> throw_on_flush_from{-1}; // every flush call with index >= this throws (a sink whose flush keeps failing)
  std::atomic<uint32_t> slow_us{0};
  std::atomic<bool> keep_stmt{false};
  std::atomic<uint64_t> writes{0}, flushes{0};
  std::function<bool(std::string_view msg)> throw_if; // set before the statements are issued; a hit is recorded as kind 'x'

  void write_log(quill::MacroMetadata const* md, uint64_t ts, std::string_view thread_id, std::string_view, std::string const&,
                 std::string_view logger_name, quill::LogLevel level, std::string_view level_desc, std::string_view,
                 std::vector<std::pair<std::string, std::string>> const* named, std::string_view msg, std::string_view stmt) override
  {
    uint64_t const n = writes.fetch_add(1, std::memory_order_relaxed);
    if (static_cast<int64_t>(n) == throw_on_write.load(std::memory_order_relaxed)) throw SinkThrow{"scripted write failure sink " + std::to_string(_id)};
    if (uint32_t us = slow_us.load(std::memory_order_relaxed)) std::this_thread::sleep_for(std::chrono::microseconds(us));
    if (throw_if && throw_if(msg))
    {
      SinkEv x;
      x.g = ticket();
      x.sink = _id;
      x.kind = 'x';
      x.level = level;
      x.msg.assign(msg);
      recorder().add(std::move(x));
      throw SinkThrow{"scripted write failure (predicate) sink " + std::to_string(_id)};
    }
    SinkEv e;
    e.g = ticket();
    e.sink = _id;
    e.kind = 'w';
    e.logger.assign(logger_name);
    e.level = level;
    e.level_desc.assign(level_desc);
    e.ts = ts;
    e.thread_id.assign(thread_id);
    e.msg.assign(msg);
    if (keep_stmt.load(std::memory_order_relaxed)) e.stmt.assign(stmt);
    if (named)
    {
      e.named = *named;
      e.has_named = true;
    }
    e.md = md;
    recorder().add(std::move(e));
  }
  void flush_sink() override
  {
    uint64_t const n = flushes.fetch_add(1, std::memory_order_relaxed);
    if (static_cast<int64_t>(n) == throw_on_flush.load(std::memory_order_relaxed)) throw SinkThrow{"scripted flush failure sink " + std::to_string(_id)};
    if (int64_t from = throw_on_flush_from.load(std::memory_order_relaxed); from >= 0 && static_cast<int64_t>(n) >= from) throw SinkThrow{"scripted persistent flush failure sink " + std::to_string(_id)};
    SinkEv e;
    e.g = ticket();
    e.sink = _id;
    e.kind = 'f';
    recorder().add(std::move(e));
  }

private:
  uint32_t _id;
};
} // namespace vf
