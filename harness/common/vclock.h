// Virtual wall clock without a hook: the harness executable defines clock_gettime(); libstdc++'s
// std::chrono::system_clock::now() binds to it. CLOCK_REALTIME is virtual only while g_virtual is set (mode S);
// every read returns a strictly larger value. Everything else goes to the kernel.
#pragma once
#include <atomic>
#include <cstdint>
#include <ctime>
#include <sys/syscall.h>
#include <unistd.h>

namespace vf
{
inline std::atomic<bool> g_virtual{false};
inline std::atomic<uint64_t> g_vnow{1700000000ull * 1000000000ull};
inline std::atomic<uint64_t> g_vreads{0};
// called at the start of every virtual CLOCK_REALTIME read (mode S): lets the scheduler place operations of other
// threads right before a clock read of the backend (a window that has no call-out of its own)
inline void (*g_clock_read_hook)() = nullptr;
inline uint64_t vclock_peek() { return g_vnow.load(std::memory_order_relaxed); }
inline void vclock_jump(uint64_t ns) { g_vnow.fetch_add(ns, std::memory_order_relaxed); }
inline uint64_t real_now_ns()
{
  timespec ts;
  syscall(SYS_clock_gettime, CLOCK_REALTIME, &ts);
  return static_cast<uint64_t>(ts.tv_sec) * 1000000000ull + static_cast<uint64_t>(ts.tv_nsec);
}
// the wall clock as quill sees it
inline uint64_t wall_now_ns()
{
  if (g_virtual.load(std::memory_order_relaxed)) return g_vnow.fetch_add(1, std::memory_order_relaxed) + 1;
  return real_now_ns();
}
} // namespace vf

#if defined(VF_DEFINE_CLOCK)
extern "C" int clock_gettime(clockid_t id, struct timespec* ts) noexcept
{
  if (id == CLOCK_REALTIME && vf::g_virtual.load(std::memory_order_relaxed))
  {
    if (vf::g_clock_read_hook) vf::g_clock_read_hook();
    uint64_t const v = vf::g_vnow.fetch_add(1, std::memory_order_relaxed) + 1;
    vf::g_vreads.fetch_add(1, std::memory_order_relaxed);
    ts->tv_sec = static_cast<time_t>(v / 1000000000ull);
    ts->tv_nsec = static_cast<long>(v % 1000000000ull);
    return 0;
  }
  return static_cast<int>(syscall(SYS_clock_gettime, id, ts));
}
#endif
