// Mode S: cooperative execution of real threads. Exactly one thread runs at a time: the scheduler (which is also
// the backend, through quill::ManualBackendWorker) posts one operation to one worker and waits until the worker has
// finished it or has parked inside a hook (blocked retry loop, flush wait loop, or a scripted stall right after the
// clock read). Runs are deterministic functions of (scenario, seed).
#pragma once
#include <condition_variable>
#include <functional>
#include <memory>
#include <mutex>
#include <thread>

namespace vf
{
struct SWorker;
inline thread_local SWorker* tl_sworker = nullptr;

struct SWorker
{
  enum St
  {
    IDLE,
    RUNNING,
    PARKED,
    EXITED
  };
  uint32_t idx;
  std::thread th;
  std::mutex m;
  std::condition_variable cv;
  St st{IDLE};
  std::function<void()> op;
  bool quit{false};
  int park_point{0};
  bool stall_after_clock_read{false}; // scripted: park at FE_TS_TAKEN during the current operation
  uint64_t parks{0};

  explicit SWorker(uint32_t i) : idx(i)
  {
    th = std::thread([this] { loop(); });
  }
  ~SWorker()
  {
    if (th.joinable()) exit_thread();
  }

  void loop()
  {
    tl_sworker = this;
    std::unique_lock<std::mutex> lk{m};
    for (;;)
    {
      cv.wait(lk, [this] { return quit || st == RUNNING; });
      if (quit) break;
      auto f = std::move(op);
      lk.unlock();
      f();
      lk.lock();
      st = IDLE;
      cv.notify_all();
    }
    st = EXITED;
    cv.notify_all();
  }

  // scheduler side -------------------------------------------------------
  // post an operation; returns when it completed (IDLE) or parked (PARKED)
  St run(std::function<void()> f)
  {
    std::unique_lock<std::mutex> lk{m};
    op = std::move(f);
    st = RUNNING;
    cv.notify_all();
    cv.wait(lk, [this] { return st != RUNNING; });
    return st;
  }
  // let a parked worker continue; returns when it completed or parked again
  St resume()
  {
    std::unique_lock<std::mutex> lk{m};
    if (st != PARKED) return st;
    st = RUNNING;
    cv.notify_all();
    cv.wait(lk, [this] { return st != RUNNING; });
    return st;
  }
  bool parked()
  {
    std::lock_guard<std::mutex> lk{m};
    return st == PARKED;
  }
  // really end the OS thread (thread_local destructors run: the quill thread context is invalidated)
  void exit_thread()
  {
    {
      std::lock_guard<std::mutex> lk{m};
      quit = true;
      cv.notify_all();
    }
    th.join();
  }

  // worker side (called from hooks on the worker's own thread) ---------------
  void park(int point)
  {
    std::unique_lock<std::mutex> lk{m};
    park_point = point;
    ++parks;
    st = PARKED;
    cv.notify_all();
    cv.wait(lk, [this] { return st == RUNNING; });
  }
};
} // namespace vf
