// Common harness utilities: PRNG, JSON-lines output, argument parsing, delay injection.
#pragma once
#include <atomic>
#include <chrono>
#include <cstdarg>
#include <cstdint>
#include <cstdio>
#include <cstdlib>
#include <cstring>
#include <initializer_list>
#include <map>
#include <mutex>
#include <sched.h>
#include <string>
#include <thread>
#include <unistd.h>
#include <vector>

namespace vf
{
// ---------------------------------------------------------------- PRNG (splitmix64 + xoshiro256**)
struct Rng
{
  uint64_t s[4];
  explicit Rng(uint64_t seed = 1) { reseed(seed); }
  static uint64_t splitmix(uint64_t& x)
  {
    uint64_t z = (x += 0x9e3779b97f4a7c15ull);
    z = (z ^ (z >> 30)) * 0xbf58476d1ce4e5b9ull;
    z = (z ^ (z >> 27)) * 0x94d049bb133111ebull;
    return z ^ (z >> 31);
  }
  void reseed(uint64_t seed)
  {
    uint64_t x = seed;
    for (auto& v : s) v = splitmix(x);
  }
  static uint64_t rotl(uint64_t x, int k) { return (x << k) | (x >> (64 - k)); }
  uint64_t next()
  {
    uint64_t const result = rotl(s[1] * 5, 7) * 9;
    uint64_t const t = s[1] << 17;
    s[2] ^= s[0];
    s[3] ^= s[1];
    s[1] ^= s[2];
    s[0] ^= s[3];
    s[2] ^= t;
    s[3] = rotl(s[3], 45);
    return result;
  }
  // uniform in [0,n)
  uint64_t below(uint64_t n) { return n ? next() % n : 0; }
  // uniform in [lo,hi]
  uint64_t range(uint64_t lo, uint64_t hi) { return lo + below(hi - lo + 1); }
  bool chance(uint32_t num, uint32_t den) { return below(den) < num; }
  template <typename T>
  T const& pick(std::vector<T> const& v) { return v[below(v.size())]; }
  template <typename T, size_t N>
  T const& pick(T const (&a)[N]) { return a[below(N)]; }
  template <typename T>
  T pick(std::initializer_list<T> l) { return *(l.begin() + below(l.size())); }
};

inline uint64_t mix(uint64_t a, uint64_t b)
{
  uint64_t x = a * 0x9e3779b97f4a7c15ull + b;
  return Rng::splitmix(x);
}

// ---------------------------------------------------------------- JSON lines
inline std::string jesc(std::string const& s)
{
  std::string o;
  o.reserve(s.size() + 8);
  for (unsigned char c : s)
  {
    switch (c)
    {
    case '"': o += "\\\""; break;
    case '\\': o += "\\\\"; break;
    case '\n': o += "\\n"; break;
    case '\r': o += "\\r"; break;
    case '\t': o += "\\t"; break;
    default:
      if (c < 0x20 || c >= 0x7f)
      {
        char b[8];
        snprintf(b, sizeof b, "\\u%04x", c);
        o += b;
      }
      else
        o += static_cast<char>(c);
    }
  }
  return o;
}

// Small JSON object builder
struct J
{
  std::string s{"{"};
  bool first{true};
  void key(char const* k)
  {
    if (!first) s += ",";
    first = false;
    s += "\"";
    s += k;
    s += "\":";
  }
  J& str(char const* k, std::string const& v)
  {
    key(k);
    s += "\"" + jesc(v) + "\"";
    return *this;
  }
  J& num(char const* k, long long v)
  {
    key(k);
    s += std::to_string(v);
    return *this;
  }
  J& unum(char const* k, unsigned long long v)
  {
    key(k);
    s += std::to_string(v);
    return *this;
  }
  J& boolean(char const* k, bool v)
  {
    key(k);
    s += v ? "true" : "false";
    return *this;
  }
  J& raw(char const* k, std::string const& v)
  {
    key(k);
    s += v;
    return *this;
  }
  std::string done() const { return s + "}"; }
};

inline std::mutex& out_mutex()
{
  static std::mutex m;
  return m;
}
inline void emit(std::string const& line)
{
  std::lock_guard<std::mutex> g{out_mutex()};
  fwrite(line.data(), 1, line.size(), stdout);
  fputc('\n', stdout);
  fflush(stdout);
}
inline std::atomic<uint64_t>& viol_count()
{
  static std::atomic<uint64_t> c{0};
  return c;
}
// violation: property, short key (stable across runs, used for de-duplication / known findings), witness object
inline void violation(char const* prop, std::string const& key, J const& witness)
{
  // cap output: at most 5 witnesses per (property, key) and 300 in total per process, so that a frequent (possibly
  // known) finding can never crowd out a different one
  {
    static std::mutex mu;
    static std::map<std::string, int> per_key;
    std::lock_guard<std::mutex> g{mu};
    if (++per_key[std::string{prop} + "|" + key] > 5) return;
  }
  if (viol_count().fetch_add(1) > 300) return;
  emit(J{}.str("k", "viol").str("prop", prop).str("key", key).raw("witness", witness.done()).done());
}
inline void sample(J const& j)
{
  J o;
  o.str("k", "sample");
  std::string body = j.done();
  // merge: {"k":"sample", <body fields>}
  std::string s = o.s + (body.size() > 2 ? "," + body.substr(1) : "}");
  emit(s);
}
inline void inconclusive(std::string const& why) { emit(J{}.str("k", "inconclusive").str("why", why).done()); }

struct Stats
{
  std::map<std::string, long long> v;
  std::map<std::string, std::vector<std::string>> sets;
  void add(std::string const& k, long long n = 1) { v[k] += n; }
  void mx(std::string const& k, long long n)
  {
    auto it = v.find(k);
    if (it == v.end() || it->second < n) v[k] = n;
  }
  void sig(std::string const& k, std::string const& s)
  {
    auto& vec = sets[k];
    if (vec.size() < 4000) vec.push_back(s);
  }
  void flush()
  {
    std::string s = "{\"k\":\"stats\"";
    for (auto& kv : v) s += ",\"" + kv.first + "\":" + std::to_string(kv.second);
    for (auto& kv : sets)
    {
      s += ",\"" + kv.first + "\":[";
      bool f = true;
      for (auto& e : kv.second)
      {
        if (!f) s += ",";
        f = false;
        s += "\"" + jesc(e) + "\"";
      }
      s += "]";
    }
    s += "}";
    emit(s);
    v.clear();
    sets.clear();
  }
};
inline void end_ok() { emit("{\"k\":\"end\"}"); }

// ---------------------------------------------------------------- args: --name value
struct Args
{
  std::map<std::string, std::string> kv;
  Args(int argc, char** argv)
  {
    for (int i = 1; i + 1 < argc; i += 2)
    {
      if (strncmp(argv[i], "--", 2) == 0) kv[argv[i] + 2] = argv[i + 1];
    }
  }
  uint64_t u(char const* k, uint64_t d) const
  {
    auto it = kv.find(k);
    return it == kv.end() ? d : strtoull(it->second.c_str(), nullptr, 0);
  }
  std::string s(char const* k, char const* d) const
  {
    auto it = kv.find(k);
    return it == kv.end() ? std::string{d} : it->second;
  }
};

// ---------------------------------------------------------------- delay injection (per-thread PRNG, no shared state)
inline void spin(uint32_t n)
{
  for (volatile uint32_t i = 0; i < n; ++i) {}
}
// Random perturbation: mostly nothing, sometimes a short spin, a yield or a short sleep.
inline void jitter(Rng& r, uint32_t intensity = 1)
{
  uint64_t x = r.below(64);
  if (x < 40) return;
  if (x < 54) { spin(static_cast<uint32_t>(r.below(200 * intensity))); return; }
  if (x < 61) { sched_yield(); return; }
  if (x < 63) { spin(static_cast<uint32_t>(r.below(5000 * intensity))); return; }
  std::this_thread::sleep_for(std::chrono::microseconds(r.below(60 * intensity)));
}

inline uint64_t mono_ns()
{
  return static_cast<uint64_t>(std::chrono::duration_cast<std::chrono::nanoseconds>(
                                 std::chrono::steady_clock::now().time_since_epoch())
                                 .count());
}
} // namespace vf
