// C01 (and the queue-level part of C09): drives quill::detail::BoundedSPSCQueueImpl<T> directly.
//   mode stream : one producer thread, one consumer thread, random delays, online oracles at both client boundaries
//   mode probe  : single-threaded random histories, then quiescence, then "every n <= capacity must be granted" (C09)
#include "common/util.h"
#include "quill/core/BoundedSPSCQueue.h"

#include <thread>

using namespace vf;

namespace
{
Stats g_stats;
std::mutex g_stats_mu;

inline uint8_t pat(uint32_t seq, uint32_t i) { return static_cast<uint8_t>((seq * 2654435761u + i * 40503u + (i >> 8)) >> 7); }

struct Cfg
{
  char const* tname;
  uint64_t cap;
  uint32_t pct;
  uint64_t records;
  uint64_t seed;
  uint32_t phase; // interleaving pressure pattern
  uint32_t sizeclass;
  uint32_t jit;
  std::string str() const
  {
    return J{}
      .str("T", tname)
      .unum("cap", cap)
      .unum("pct", pct)
      .unum("records", records)
      .unum("seed", seed)
      .unum("phase", phase)
      .unum("sizeclass", sizeclass)
      .done();
  }
};

template <typename T>
struct StreamRun
{
  using Q = quill::detail::BoundedSPSCQueueImpl<T>;
  Cfg cfg;
  Q q;
  uint64_t const cap;

  // monitor state shared between the two sides: relaxed atomics only (no monitor-induced happens-before)
  std::atomic<uint64_t> about_to_commit{0}; // number of records committed or about to be committed (seq+1)
  std::atomic<uint64_t> r_hi{0};            // bytes the consumer is about to release / has released (upper bound)
  std::atomic<uint64_t> r_done{0};          // bytes released (after commit_read)
  std::atomic<uint64_t> w_committed{0};     // bytes committed (after commit_write)
  std::atomic<bool> producer_done{false};
  std::atomic<bool> abort_run{false};
  std::atomic<bool> consumer_hold{false};
  std::atomic<bool> producer_hold{false};
  std::atomic<uintptr_t> pbase{0}, cbase{0};

  // per side stats (merged after join)
  uint64_t hard_stalls{0}, fulls{0}, empties{0}, exact_fits{0}, wraps{0}, max_occ{0}, stall_redraws{0}, multi_commits{0}, fused_commits{0},
    double_checks{0}, bytes{0}, grants{0}, occ_hist[5]{};
  bool saw_full{false}, saw_empty{false};

  explicit StreamRun(Cfg const& c)
    : cfg(c), q(static_cast<T>(c.cap), quill::HugePagesPolicy::Never, static_cast<T>(c.pct)), cap(q.capacity())
  {
  }

  void fail(std::string const& key, J w)
  {
    bool exp = false;
    if (abort_run.compare_exchange_strong(exp, true))
    {
      w.raw("cfg", cfg.str());
      violation("C01", key, w);
    }
  }

  uint32_t draw_len(Rng& r, uint64_t W)
  {
    // returns total record size n (header 8 + payload), 8 <= n <= cap
    uint64_t n;
    uint64_t const free_lo = cap - (W - r_done.load(std::memory_order_relaxed)); // lower bound of truly free space
    switch (cfg.sizeclass == 0 ? r.below(8) : cfg.sizeclass)
    {
    case 0:
    case 1: n = 8 + r.below(17); break;                          // tiny
    case 2: n = r.range(8, std::max<uint64_t>(8, cap / 8)); break; // small..medium
    case 3: n = r.range(cap / 2 > 8 ? cap / 2 - 4 : 8, std::min(cap, cap / 2 + 4)); break; // around half
    case 4: n = cap - r.below(std::min<uint64_t>(cap - 8, 6)); break;                       // cap-k .. cap
    case 5: n = free_lo >= 8 ? free_lo : 8; break;                                          // exactly the free space
    case 6: n = std::min(cap, (free_lo >= 8 ? free_lo : 8) + 1); break;                     // free space + 1
    default: n = r.range(8, cap); break;
    }
    if (n < 8) n = 8;
    if (n > cap) n = cap;
    return static_cast<uint32_t>(n);
  }

  void producer()
  {
    Rng r{mix(cfg.seed, 0xA1)};
    uint64_t W = 0;
    uint64_t seq = 0;
    uint64_t uncommitted = 0;
    while (seq < cfg.records && !abort_run.load(std::memory_order_relaxed))
    {
      uint32_t batch = r.chance(1, 5) ? static_cast<uint32_t>(r.range(2, 4)) : 1;
      for (uint32_t b = 0; b < batch && seq < cfg.records; ++b)
      {
        // interleaving pressure: occasionally ask the consumer to park until we hit "full"
        if (cfg.phase == 1 && r.chance(1, 400)) consumer_hold.store(true, std::memory_order_relaxed);
        if (cfg.phase == 2)
        {
          // let the consumer drain to empty before we continue
          if (r.chance(1, 300))
          {
            producer_hold.store(true, std::memory_order_relaxed);
            if (uncommitted) { about_to_commit.store(seq, std::memory_order_relaxed); q.commit_write(); uncommitted = 0; w_committed.store(W, std::memory_order_relaxed); }
            uint32_t guard = 0;
            while (producer_hold.load(std::memory_order_relaxed) && !abort_run.load(std::memory_order_relaxed) && ++guard < 200000) sched_yield();
            producer_hold.store(false, std::memory_order_relaxed);
          }
        }
        uint32_t n = draw_len(r, W);
        std::byte* p;
        uint32_t tries = 0;
        while (true)
        {
          p = q.prepare_write(static_cast<T>(n));
          if (p) break;
          ++fulls;
          saw_full = true;
          consumer_hold.store(false, std::memory_order_relaxed);
          if (uncommitted)
          {
            // finished-but-uncommitted records are invisible: publish them or nobody makes progress
            about_to_commit.store(seq, std::memory_order_relaxed);
            q.commit_write();
            w_committed.store(W, std::memory_order_relaxed);
            uncommitted = 0;
            ++multi_commits;
          }
          if (abort_run.load(std::memory_order_relaxed)) return;
          ++tries;
          // The consumer has released everything (queue empty) and we are still refused: that is the C09
          // stall, not judged here. Re-draw a smaller record so the stream keeps moving.
          if (tries > 64 && r_done.load(std::memory_order_relaxed) == W)
          {
            // the drain was observed after our last attempt: try once more before calling it a stall
            p = q.prepare_write(static_cast<T>(n));
            if (p) break;
            if (n == 8)
            {
              // even the smallest record is refused on an empty queue: this configuration cannot continue
              ++hard_stalls;
              abort_run.store(true, std::memory_order_relaxed);
              return;
            }
            ++stall_redraws;
            n = static_cast<uint32_t>(std::max<uint64_t>(8, n / 2));
            tries = 0;
          }
          if (tries % 8 == 0) sched_yield(); else jitter(r, cfg.jit);
        }
        ++grants;
        // ---- grant oracle
        uint64_t const rhi = r_hi.load(std::memory_order_relaxed); // read AFTER the grant: upper bound of released bytes
        if (n > cap) fail("grant-larger-than-capacity", J{}.unum("n", n).unum("cap", cap));
        uintptr_t base = pbase.load(std::memory_order_relaxed);
        if (W == 0 && base == 0)
        {
          base = reinterpret_cast<uintptr_t>(p);
          pbase.store(base, std::memory_order_relaxed);
        }
        if (reinterpret_cast<uintptr_t>(p) != base + (W & (cap - 1)))
          fail("grant-wrong-position", J{}.unum("W", W).unum("off", reinterpret_cast<uintptr_t>(p) - base).unum("n", n));
        if (W + n > rhi + cap)
          fail("grant-exceeds-released-space",
               J{}.unum("W", W).unum("n", n).unum("released_upper_bound", rhi).unum("occupied_after", W + n - rhi));
        uint64_t const occ = W + n - std::min(W + n, rhi);
        if (occ > max_occ) max_occ = occ;
        ++occ_hist[std::min<uint64_t>(4, occ * 5 / (cap + 1))];
        if (W + n - rhi == cap) ++exact_fits;
        if (((W & (cap - 1)) + n) > cap) ++wraps;
        // ---- write the record
        uint32_t hdr[2] = {static_cast<uint32_t>(seq), n - 8};
        std::memcpy(p, hdr, 8);
        uint8_t* d = reinterpret_cast<uint8_t*>(p) + 8;
        for (uint32_t i = 0; i < n - 8; ++i) d[i] = pat(static_cast<uint32_t>(seq), i);
        jitter(r, cfg.jit);
        if (b + 1 == batch && r.chance(1, 2))
        {
          // the fused call the Logger uses with bounded queues: finish and publish in one step
          about_to_commit.store(seq + 1, std::memory_order_relaxed); // BEFORE the commit
          q.finish_and_commit_write(static_cast<T>(n));
          W += n;
          bytes += n;
          ++seq;
          w_committed.store(W, std::memory_order_relaxed);
          uncommitted = 0;
          ++fused_commits;
          jitter(r, cfg.jit);
          continue;
        }
        q.finish_write(static_cast<T>(n));
        W += n;
        bytes += n;
        ++seq;
        ++uncommitted;
        jitter(r, cfg.jit);
      }
      if (!uncommitted) continue;
      about_to_commit.store(seq, std::memory_order_relaxed); // BEFORE the commit
      q.commit_write();
      w_committed.store(W, std::memory_order_relaxed);
      uncommitted = 0;
      jitter(r, cfg.jit);
    }
    consumer_hold.store(false, std::memory_order_relaxed);
    producer_done.store(true, std::memory_order_release);
  }

  bool verify(uint8_t const* d, uint32_t seq, uint32_t len, uint32_t& bad_at)
  {
    for (uint32_t i = 0; i < len; ++i)
      if (d[i] != pat(seq, i))
      {
        bad_at = i;
        return false;
      }
    return true;
  }

  void consumer()
  {
    Rng r{mix(cfg.seed, 0xC2)};
    uint64_t expected = 0, R = 0;
    uint32_t pending_commit = 0;
    uint32_t idle_after_done = 0;
    while (expected < cfg.records && !abort_run.load(std::memory_order_relaxed))
    {
      if (consumer_hold.load(std::memory_order_relaxed))
      {
        uint32_t guard = 0;
        while (consumer_hold.load(std::memory_order_relaxed) && !producer_done.load(std::memory_order_relaxed) &&
               !abort_run.load(std::memory_order_relaxed) && ++guard < 200000)
          sched_yield();
        consumer_hold.store(false, std::memory_order_relaxed);
      }
      std::byte* p = q.prepare_read();
      if (!p)
      {
        ++empties;
        saw_empty = true;
        if (pending_commit)
        {
          q.commit_read();
          r_done.store(R, std::memory_order_relaxed);
          pending_commit = 0;
        }
        producer_hold.store(false, std::memory_order_relaxed);
        if (producer_done.load(std::memory_order_acquire))
        {
          if (++idle_after_done > 2000)
          {
            fail("lost-records", J{}.unum("expected_next_seq", expected).unum("total", cfg.records).unum("bytes_consumed", R));
            return;
          }
          if (idle_after_done > 50) std::this_thread::sleep_for(std::chrono::microseconds(50));
        }
        else
          jitter(r, cfg.jit);
        continue;
      }
      idle_after_done = 0;
      uintptr_t base = cbase.load(std::memory_order_relaxed);
      if (R == 0 && base == 0)
      {
        base = reinterpret_cast<uintptr_t>(p);
        cbase.store(base, std::memory_order_relaxed);
      }
      if (reinterpret_cast<uintptr_t>(p) != base + (R & (cap - 1)))
      {
        fail("read-wrong-position", J{}.unum("R", R).unum("off", reinterpret_cast<uintptr_t>(p) - base));
        return;
      }
      uint32_t hdr[2];
      std::memcpy(hdr, p, 8);
      uint64_t const ato = about_to_commit.load(std::memory_order_relaxed);
      if (hdr[0] != static_cast<uint32_t>(expected))
      {
        char const* kind = hdr[0] < expected ? "duplicate-or-reordered" : "gap-or-torn-header";
        fail(std::string{"stream-"} + kind, J{}.unum("expected_seq", expected).unum("got_seq", hdr[0]).unum("got_len", hdr[1]).unum("R", R));
        return;
      }
      if (expected >= ato)
      {
        fail("visible-before-commit", J{}.unum("seq", expected).unum("committed_or_committing", ato));
        return;
      }
      uint32_t const len = hdr[1];
      if (8ull + len > cap)
      {
        fail("torn-length", J{}.unum("seq", expected).unum("len", len));
        return;
      }
      uint32_t bad = 0;
      uint8_t const* d = reinterpret_cast<uint8_t const*>(p) + 8;
      if (!verify(d, hdr[0], len, bad))
      {
        fail("payload-corrupt-at-first-read", J{}.unum("seq", expected).unum("len", len).unum("byte", bad));
        return;
      }
      if (r.chance(1, 4))
      {
        // hold the record unreleased for a while, then it must still be intact (producer must not overwrite it)
        jitter(r, cfg.jit * 4);
        ++double_checks;
        if (!verify(d, hdr[0], len, bad))
        {
          fail("overwritten-before-release", J{}.unum("seq", expected).unum("len", len).unum("byte", bad));
          return;
        }
      }
      uint64_t const n = 8ull + len;
      r_hi.store(R + n, std::memory_order_relaxed); // BEFORE finish_read
      q.finish_read(static_cast<T>(n));
      R += n;
      ++expected;
      ++pending_commit;
      if (r.chance(1, 2) || pending_commit >= 16)
      {
        q.commit_read();
        r_done.store(R, std::memory_order_relaxed);
        pending_commit = 0;
      }
      jitter(r, cfg.jit);
    }
    if (pending_commit)
    {
      q.commit_read();
      r_done.store(R, std::memory_order_relaxed);
    }
  }

  void run()
  {
    std::thread tc([this] { consumer(); });
    std::thread tp([this] { producer(); });
    tp.join();
    tc.join();
    if (hard_stalls)
    {
      std::lock_guard<std::mutex> g{g_stats_mu};
      g_stats.add("c09_hard_stalls_config_abandoned_not_judged_here");
      return;
    }
    if (!abort_run.load())
    {
      // conservation
      if (r_done.load() != w_committed.load())
        fail("conservation", J{}.unum("produced", w_committed.load()).unum("consumed", r_done.load()));
      else if (!q.empty())
        fail("not-empty-at-end", J{}.unum("produced", w_committed.load()));
      else if (pbase.load() != cbase.load())
        fail("producer-consumer-base-differ", J{});
    }
    std::lock_guard<std::mutex> g{g_stats_mu};
    g_stats.add("configs");
    g_stats.add("records", cfg.records);
    g_stats.add("bytes", bytes);
    g_stats.add("grants", grants);
    g_stats.add("full_returns", fulls);
    g_stats.add("empty_returns", empties);
    g_stats.add("exact_fit_grants", exact_fits);
    g_stats.add("wrap_crossing_records", wraps);
    g_stats.add("finish_and_commit_write_calls", fused_commits);
    g_stats.add("multi_record_commits", multi_commits);
    g_stats.add("held_record_rechecks", double_checks);
    g_stats.add("c09_stall_redraws_not_judged_here", stall_redraws);
    for (int i = 0; i < 5; ++i) g_stats.add(std::string{"occupancy_at_grant_quintile_"} + std::to_string(i), occ_hist[i]);
    g_stats.mx("max_occupancy_permille", max_occ * 1000 / cap);
    // integer wrap-arounds of the position counters
    if (sizeof(T) < 8) g_stats.add("position_counter_wraparounds", bytes >> (8 * sizeof(T)));
    std::string sig = std::string{cfg.tname} + "/" + std::to_string(cfg.cap) + "/" + std::to_string(cfg.pct) + "/" +
      (saw_full ? "F" : "-") + (saw_empty ? "E" : "-") + (wraps ? "W" : "-");
    if (saw_full && saw_empty && wraps) g_stats.sig("nontrivial", sig);
    g_stats.sig("triples", std::string{cfg.tname} + "/" + std::to_string(cfg.cap) + "/" + std::to_string(cfg.pct));
  }
};

template <typename T>
void run_stream(Cfg const& c)
{
  StreamRun<T> s{c};
  s.run();
}

// ------------------------------------------------------------------------------------------------------------
// C09 queue level: random single-threaded history, then the consumer drains and commits, then every request
// n <= capacity must be granted at once.
template <typename T>
void run_probe(Cfg const& c)
{
  using Q = quill::detail::BoundedSPSCQueueImpl<T>;
  Q q(static_cast<T>(c.cap), quill::HugePagesPolicy::Never, static_cast<T>(c.pct));
  uint64_t const cap = q.capacity();
  Rng r{mix(c.seed, 0x09)};
  uint64_t W = 0, R = 0;
  std::vector<uint32_t> sizes; // sizes of records in the queue (FIFO)
  size_t head = 0;
  uint64_t probes = 0, states = 0, exact_model_grants = 0;
  for (uint64_t h = 0; h < c.records; ++h)
  {
    // random history segment
    uint32_t ops = static_cast<uint32_t>(r.range(1, 12));
    for (uint32_t o = 0; o < ops; ++o)
    {
      if (r.chance(1, 2))
      {
        uint64_t n = r.chance(1, 3) ? r.range(1, 40) : r.range(1, cap);
        std::byte* p = q.prepare_write(static_cast<T>(n));
        bool const fits_released = (W + n - R) <= cap; // R = bytes finished AND committed by the consumer below
        if (p)
        {
          // exact model in single-threaded mode: a grant needs the space to be released
          if (!fits_released)
          {
            violation("C01", "grant-exceeds-released-space",
                      J{}.unum("W", W).unum("R", R).unum("n", n).raw("cfg", c.str()).str("mode", "probe"));
            return;
          }
          ++exact_model_grants;
          std::memset(p, 0x5a, n);
          q.finish_write(static_cast<T>(n));
          q.commit_write();
          W += n;
          sizes.push_back(static_cast<uint32_t>(n));
        }
      }
      else
      {
        // consume k records then commit
        uint32_t k = static_cast<uint32_t>(r.range(1, 4));
        bool any = false;
        while (k-- && head < sizes.size())
        {
          std::byte* p = q.prepare_read();
          if (!p)
          {
            violation("C01", "lost-records", J{}.unum("W", W).unum("R", R).raw("cfg", c.str()).str("mode", "probe"));
            return;
          }
          q.finish_read(static_cast<T>(sizes[head]));
          R += sizes[head];
          ++head;
          any = true;
        }
        if (any) q.commit_read();
      }
    }
    // quiescence: the consumer reads everything and commits
    bool any = false;
    while (head < sizes.size())
    {
      std::byte* p = q.prepare_read();
      if (!p)
      {
        violation("C01", "lost-records", J{}.unum("W", W).unum("R", R).raw("cfg", c.str()).str("mode", "probe"));
        return;
      }
      q.finish_read(static_cast<T>(sizes[head]));
      R += sizes[head];
      ++head;
      any = true;
    }
    if (any) q.commit_read();
    if (q.prepare_read() != nullptr || !q.empty())
    {
      violation("C01", "phantom-record", J{}.unum("W", W).raw("cfg", c.str()).str("mode", "probe"));
      return;
    }
    sizes.clear();
    head = 0;
    ++states;
    // probe: the queue is empty and the consumer is idle; every n <= cap must be granted
    uint64_t largest = 0;
    // binary search is not valid a priori (we are testing the implementation), but grants are monotone in n in any
    // sane implementation; we probe the top 70 sizes exhaustively plus random ones.
    uint64_t failed_n = 0;
    for (uint64_t n = cap; n >= 1 && n + 70 > cap; --n)
    {
      ++probes;
      if (q.prepare_write(static_cast<T>(n))) { if (n > largest) largest = n; }
      else if (!failed_n) failed_n = n;
    }
    for (int i = 0; i < 8; ++i)
    {
      uint64_t n = r.range(1, cap);
      ++probes;
      if (q.prepare_write(static_cast<T>(n))) { if (n > largest) largest = n; }
      else if (!failed_n || n < failed_n) failed_n = n;
    }
    if (failed_n)
    {
      // smallest granted bound: find largest n that is granted (scan down)
      uint64_t g = failed_n;
      while (g >= 1 && !q.prepare_write(static_cast<T>(g))) --g;
      uint64_t const batch = static_cast<uint64_t>(static_cast<double>(cap * c.pct) / 100.0);
      violation("C09", "bounded-empty-queue-refuses-fitting-record",
                J{}
                  .unum("cap", cap)
                  .unum("pct", c.pct)
                  .unum("batch", batch)
                  .unum("n", failed_n)
                  .unum("largest_granted", g)
                  .unum("u", cap - g)
                  .unum("bytes_consumed", R)
                  .str("T", c.tname)
                  .unum("seed", c.seed)
                  .str("family", "queue-probe"));
      break; // this queue instance is stuck in that state; go to the next configuration
    }
  }
  std::lock_guard<std::mutex> g{g_stats_mu};
  g_stats.add("probe_configs");
  g_stats.add("quiescent_states_probed", states);
  g_stats.add("probe_requests", probes);
  g_stats.add("probe_exact_model_grants", exact_model_grants);
  g_stats.sig("probe_triples", std::string{c.tname} + "/" + std::to_string(c.cap) + "/" + std::to_string(c.pct));
}
} // namespace

int main(int argc, char** argv)
{
  Args a{argc, argv};
  std::string mode = a.s("mode", "stream");
  uint64_t seed = a.u("seed", 1);
  uint64_t configs = a.u("configs", 20);
  uint64_t records = a.u("records", 20000);
  uint64_t par = a.u("par", 1); // configurations run concurrently inside this process
  Rng r{mix(seed, 0x51)};
  static uint64_t const caps[] = {64, 128, 256, 512, 1024, 2048, 4096, 16384, 32768, 65536};
  static uint32_t const pcts[] = {0, 1, 5, 5, 50, 100};
  std::vector<std::thread> pool;
  std::atomic<uint64_t> next{0};
  std::vector<Cfg> cfgs;
  for (uint64_t i = 0; i < configs; ++i)
  {
    Cfg c;
    uint32_t t = static_cast<uint32_t>(r.below(3));
    c.tname = t == 0 ? "u16" : t == 1 ? "u32" : "u64";
    c.cap = caps[r.below(t == 0 ? 9 : 10)];
    // one configuration in six REQUESTS a capacity that is not a power of two: the queue rounds it up, and every check
    // below uses the capacity the queue reports
    if (r.chance(1, 6)) c.cap = c.cap - r.range(1, c.cap / 2 - 1);
    c.pct = pcts[r.below(6)];
    c.records = records;
    c.seed = mix(seed, i + 1000);
    c.phase = static_cast<uint32_t>(r.below(4));
    c.sizeclass = r.chance(1, 2) ? 0 : static_cast<uint32_t>(r.range(1, 7));
    c.jit = static_cast<uint32_t>(r.range(1, 3));
    cfgs.push_back(c);
  }
  auto worker = [&]
  {
    while (true)
    {
      uint64_t i = next.fetch_add(1);
      if (i >= cfgs.size()) break;
      Cfg const& c = cfgs[i];
      if (mode == "stream")
      {
        if (c.tname[1] == '1') run_stream<uint16_t>(c);
        else if (c.tname[1] == '3') run_stream<uint32_t>(c);
        else run_stream<size_t>(c);
      }
      else
      {
        if (c.tname[1] == '1') run_probe<uint16_t>(c);
        else if (c.tname[1] == '3') run_probe<uint32_t>(c);
        else run_probe<size_t>(c);
      }
    }
  };
  for (uint64_t p = 0; p < par; ++p) pool.emplace_back(worker);
  for (auto& t : pool) t.join();
  if (!cfgs.empty()) sample(J{}.str("harness", "q_bounded").str("mode", mode).raw("cfg", cfgs[0].str()));
  g_stats.flush();
  end_ok();
  return 0;
}
