// C13 (mode ts): quill::detail::TimestampFormatter vs libc gmtime_r/localtime_r + strftime, per call.
// C12 (mode pat): quill::PatternFormatter::format vs an independent substitution of the pattern.
// Mode D: single-threaded, generated inputs, a reference computed independently for every call.
#include "common/util.h"
#include "quill/backend/PatternFormatter.h"
#include "quill/backend/TimestampFormatter.h"
#include "quill/core/MacroMetadata.h"

#include <ctime>
#include <memory>

using namespace vf;

namespace
{
Stats g_stats;

// ============================================================================================ C13
struct TsCase
{
  std::string pattern; // full pattern incl. %Q token
  std::string part1, part2;
  int frac{0}; // 0 none, 3 ms, 6 us, 9 ns
  bool gmt{true};
  bool has_s{false};
  std::string klass; // feature classes used (for known-finding predicates and evidence)
};

std::vector<int64_t> g_dst; // DST transition instants of the process zone (seconds)
std::string g_tz;

void find_dst_transitions()
{
  // sample every 6 hours 2001..2100 for a change of tm_gmtoff, then bisect to the second
  time_t const lo = 978307200, hi = 4102444800;
  tm a{};
  time_t prev = lo;
  localtime_r(&prev, &a);
  long off = a.tm_gmtoff;
  for (time_t t = lo + 21600; t < hi; t += 21600)
  {
    tm b{};
    localtime_r(&t, &b);
    if (b.tm_gmtoff != off)
    {
      time_t l = t - 21600, h = t;
      while (h - l > 1)
      {
        time_t m = l + (h - l) / 2;
        tm c{};
        localtime_r(&m, &c);
        if (c.tm_gmtoff == off) l = m; else h = m;
      }
      g_dst.push_back(h);
      off = b.tm_gmtoff;
    }
  }
}

// a literal "%%" (odd position in a run of '%') directly before r R T X Q: recorded defect class, keyed separately
bool escaped_percent_letter(std::string const& p)
{
  for (size_t i = 0; i + 2 < p.size() + 0; ++i)
  {
    if (p[i] != '%') continue;
    size_t j = i;
    while (j < p.size() && p[j] == '%') ++j;
    size_t run = j - i;
    if (run >= 2 && run % 2 == 0 && j < p.size() && strchr("rRTXQ", p[j])) return true;
    if (run >= 3 && run % 2 == 1 && j < p.size() && strchr("rRTXQ", p[j]) == nullptr) {}
    i = j - 1;
  }
  return false;
}

std::string ref_strftime(std::string const& fmt, time_t secs, bool gmt)
{
  if (fmt.empty()) return {};
  tm ti{};
  if (gmt) gmtime_r(&secs, &ti); else localtime_r(&secs, &ti);
  std::vector<char> buf(64);
  for (;;)
  {
    // a leading sentinel makes a legitimately empty expansion distinguishable from "buffer too small"
    std::string f = "\x01" + fmt;
    size_t n = strftime(buf.data(), buf.size(), f.c_str(), &ti);
    if (n > 0) return std::string(buf.data() + 1, n - 1);
    buf.resize(buf.size() * 2);
    if (buf.size() > (1u << 20)) return "<strftime failed>";
  }
}

std::string ref_format(TsCase const& c, int64_t ns)
{
  time_t const secs = static_cast<time_t>(ns / 1000000000ll);
  uint32_t const frac_ns = static_cast<uint32_t>(ns - static_cast<int64_t>(secs) * 1000000000ll);
  std::string out = ref_strftime(c.part1, secs, c.gmt);
  if (c.frac)
  {
    char b[16];
    if (c.frac == 3) snprintf(b, sizeof b, "%03u", frac_ns / 1000000u);
    else if (c.frac == 6) snprintf(b, sizeof b, "%06u", frac_ns / 1000u);
    else snprintf(b, sizeof b, "%09u", frac_ns);
    out += b;
  }
  out += ref_strftime(c.part2, secs, c.gmt);
  return out;
}

struct TsGen
{
  Rng& r;
  bool tz_is_utc;
  explicit TsGen(Rng& rr, bool utc) : r(rr), tz_is_utc(utc) {}

  // returns one pattern element; sets flags
  std::string element(TsCase& c, bool& last_was_pct_pct, std::string& classes)
  {
    static char const* const plain[] = {"%a", "%A", "%b", "%B", "%C", "%d", "%D", "%e", "%F", "%g", "%G", "%h", "%j", "%m",
                                        "%n", "%p", "%t", "%u", "%U", "%V", "%w", "%W", "%x", "%y", "%Y", "%z", "%Z"};
    static char const* const tod[] = {"%H", "%M", "%S", "%I", "%k", "%l", "%r", "%R", "%T"};
    static char const* const untracked_tod[] = {"%c", "%Ec", "%OH", "%OM", "%OS", "%OI", "%EX", "%P"};
    static char const* const eo_date[] = {"%EC", "%Ex", "%Ey", "%EY", "%Od", "%Oe", "%Om", "%Ou", "%OU", "%OV", "%Ow", "%OW", "%Oy"};
    static char const lit_chars[] = " -:/.,T[]()_|=+#@abcdefgxyzQmsunrRX0123456789";
    uint64_t x = r.below(100);
    std::string e;
    if (x < 30)
    {
      e = r.pick(tod);
      classes += "t";
    }
    else if (x < 55) e = r.pick(plain);
    else if (x < 59)
    {
      e = r.pick(untracked_tod);
      classes += "u";
    }
    else if (x < 62)
    {
      e = r.pick(eo_date);
      classes += "e";
    }
    else if (x < 65 && (!c.gmt || tz_is_utc))
    {
      e = "%s";
      c.has_s = true;
      classes += "s";
    }
    else if (x < 69)
    {
      e = "%%";
      classes += "%";
    }
    else
    {
      uint32_t n = static_cast<uint32_t>(r.range(1, 4));
      for (uint32_t i = 0; i < n; ++i)
      {
        char ch = lit_chars[r.below(sizeof(lit_chars) - 1)];
        if (i == 0 && last_was_pct_pct)
        {
          // the property excludes a literal %% directly before H M S I k l s; we additionally record when it is
          // directly before another conversion letter (class 'L') so that such patterns can be recognised
          while (strchr("HMSIkls", ch)) ch = lit_chars[r.below(sizeof(lit_chars) - 1)];
          if (strchr("rRTXQ", ch)) classes += "L";
        }
        e += ch;
      }
    }
    if (last_was_pct_pct && e[0] == '%' && false) {}
    last_was_pct_pct = (e == "%%");
    return e;
  }

  TsCase make()
  {
    TsCase c;
    c.gmt = r.chance(1, 2);
    // one pattern in ten is long: dozens of conversions and literal runs, so that a part expands to hundreds of
    // characters (several growth steps of any fixed-size scratch buffer)
    bool const long_pattern = r.chance(1, 10);
    uint32_t n = static_cast<uint32_t>(long_pattern ? r.range(20, 70) : r.range(1, 7));
    int frac_at = r.chance(3, 4) ? static_cast<int>(r.below(n + 1)) : -1;
    bool lpp = false;
    std::string classes;
    std::string p1, p2;
    for (uint32_t i = 0; i <= n; ++i)
    {
      if (static_cast<int>(i) == frac_at)
      {
        c.frac = static_cast<int>(r.pick({3, 6, 9}));
        if (lpp)
        {
          // "%%" directly before "%Q..": keep them apart (a literal percent sign glued to the specifier's own '%')
          p1 += " ";
        }
        lpp = false;
      }
      if (i == n) break;
      std::string e = element(c, lpp, classes);
      (c.frac && static_cast<int>(i) >= frac_at ? p2 : p1) += e;
    }
    // "%%" must not end part 1 glued to a conversion letter starting part 2 is impossible: part 2 starts after %Q..
    c.part1 = p1;
    c.part2 = p2;
    c.pattern = p1 + (c.frac == 3 ? "%Qms" : c.frac == 6 ? "%Qus" : c.frac == 9 ? "%Qns" : "") + p2;
    if (long_pattern) classes += "G";
    std::sort(classes.begin(), classes.end());
    classes.erase(std::unique(classes.begin(), classes.end()), classes.end());
    c.klass = classes;
    return c;
  }
};

std::vector<int64_t> make_instants(Rng& r, bool need_10_digit_epoch, std::string& kinds)
{
  // seconds range
  int64_t const lo = need_10_digit_epoch ? 1000000000ll : 978307200ll, hi = 4102444800ll - 86400 * 3;
  std::vector<int64_t> out;
  uint32_t const segs = static_cast<uint32_t>(r.range(1, 4));
  int64_t t = static_cast<int64_t>(r.range(lo, hi));
  for (uint32_t s = 0; s < segs; ++s)
  {
    uint64_t kind = r.below(9);
    uint32_t len = static_cast<uint32_t>(r.range(3, 40));
    switch (kind)
    {
    case 0: // monotone walk with mixed steps
    {
      kinds += "w";
      static int64_t const steps[] = {0, 1, 1, 59, 60, 61, 3599, 3600, 3601, 86400, 900, 899};
      for (uint32_t i = 0; i < len; ++i)
      {
        t += r.chance(1, 6) ? static_cast<int64_t>(r.below(200000)) : r.pick(steps);
        if (t > hi) t = hi;
        out.push_back(t * 1000000000ll + static_cast<int64_t>(r.below(1000000000ull)));
      }
      break;
    }
    case 1: // repeats and sub-second steps
      kinds += "r";
      for (uint32_t i = 0; i < len; ++i)
      {
        if (r.chance(1, 3)) ++t;
        static int64_t const fr[] = {0, 1, 999, 1000, 999999, 1000000, 999999999, 500000000, 123456789, 1000001};
        out.push_back(t * 1000000000ll + (r.chance(1, 2) ? r.pick(fr) : static_cast<int64_t>(r.below(1000000000ull))));
      }
      break;
    case 2: // backward jump then forward again
      kinds += "b";
      for (uint32_t i = 0; i < len; ++i)
      {
        if (r.chance(1, 4)) t -= static_cast<int64_t>(r.pick({1, 5, 60, 3600, 86400, 1000000}));
        else t += static_cast<int64_t>(r.below(120));
        if (t < lo) t = lo;
        out.push_back(t * 1000000000ll + static_cast<int64_t>(r.below(1000000000ull)));
      }
      break;
    default: // aimed at a boundary
    {
      int64_t B;
      int64_t day = (t / 86400) * 86400;
      switch (kind)
      {
      case 3: B = (t / 60) * 60 + 60; kinds += "m"; break;
      case 4: B = (t / 3600) * 3600 + 3600; kinds += "h"; break;
      case 5: B = day + 43200; kinds += "n"; break;         // UTC noon
      case 6: B = day + 86400; kinds += "d"; break;         // UTC midnight
      case 7: B = (t / 900) * 900 + 900; kinds += "q"; break; // quarter hour
      default:
        if (!g_dst.empty())
        {
          // the zone's own DST transition nearest after t (or a random one)
          B = g_dst[r.below(g_dst.size())];
          if (need_10_digit_epoch && B < lo) B = g_dst.back();
          kinds += "D";
        }
        else
        {
          // local midnight / noon of a fixed-offset zone is covered by quarter hours; use an hour boundary
          B = (t / 3600) * 3600 + 3600;
          kinds += "h";
        }
      }
      if (B < lo + 10) B = lo + 10;
      int64_t start = B - static_cast<int64_t>(r.range(1, 5));
      if (r.chance(1, 4)) start = B - static_cast<int64_t>(r.range(1, 7200));
      t = start;
      for (uint32_t i = 0; i < len; ++i)
      {
        out.push_back(t * 1000000000ll + static_cast<int64_t>(r.chance(1, 3) ? 999999999 : r.below(1000000000ull)));
        if (t < B - 1 && r.chance(1, 3)) t = B - 1;
        else if (r.chance(1, 5)) t += static_cast<int64_t>(r.range(2, 4000));
        else t += static_cast<int64_t>(r.below(2));
      }
    }
    }
  }
  return out;
}

int run_ts(Args const& a)
{
  uint64_t seed = a.u("seed", 1), cases = a.u("cases", 2000);
  Rng r{mix(seed, 0x13)};
  char const* tz = getenv("TZ");
  g_tz = tz ? tz : "";
  tzset();
  find_dst_transitions();
  bool const tz_is_utc = (g_tz == "UTC" || g_tz == "UTC0" || g_tz == "Etc/UTC");
  TsGen gen{r, tz_is_utc};
  uint64_t calls = 0, rejects = 0, ambiguous_s = 0;
  for (uint64_t ci = 0; ci < cases; ++ci)
  {
    // ---- rejection cases
    if (r.chance(1, 25))
    {
      TsCase c = gen.make();
      std::string bad;
      uint64_t k = r.below(3);
      static char const* const q[] = {"%Qms", "%Qus", "%Qns"};
      if (k == 0) bad = c.part1 + r.pick(q) + c.part2 + r.pick(q);                         // two specifiers (maybe equal)
      else if (k == 1) { char const* s = r.pick(q); bad = std::string{s} + c.part1 + "-" + s; } // the same one twice
      else bad = c.part1 + "%X" + c.part2;
      bool threw = false;
      try
      {
        quill::detail::TimestampFormatter f{bad, c.gmt ? quill::Timezone::GmtTime : quill::Timezone::LocalTime};
      }
      catch (quill::QuillError const&)
      {
        threw = true;
      }
      ++rejects;
      if (!threw)
        violation("C13", k == 2 ? "percent-X-not-rejected" : (k == 1 ? "same-fractional-specifier-twice-accepted" : "two-fractional-specifiers-accepted"),
                  J{}.str("pattern", bad).str("tz", g_tz));
      continue;
    }
    TsCase c = gen.make();
    std::unique_ptr<quill::detail::TimestampFormatter> f;
    try
    {
      f = std::make_unique<quill::detail::TimestampFormatter>(c.pattern, c.gmt ? quill::Timezone::GmtTime : quill::Timezone::LocalTime);
    }
    catch (std::exception const& e)
    {
      violation("C13", escaped_percent_letter(c.pattern) ? "valid-pattern-rejected:escaped-percent-letter" : "valid-pattern-rejected", J{}.str("pattern", c.pattern).str("tz", g_tz).str("classes", c.klass).str("what", e.what()));
      continue;
    }
    std::string kinds;
    std::vector<int64_t> inst = make_instants(r, c.has_s, kinds);
    bool bad = false;
    for (size_t i = 0; i < inst.size() && !bad; ++i)
    {
      std::string_view got = f->format_timestamp(std::chrono::nanoseconds{inst[i]});
      std::string want = ref_format(c, inst[i]);
      ++calls;
      if (got != want && c.has_s)
      {
        // libc computes %s as mktime(localtime(t)), which is not t at an ambiguous local time (the zone's offset
        // decreases without a change of tm_isdst, e.g. Africa/Juba 2021-02-01): the true epoch second is accepted too
        // (each of the two pattern parts is rendered by one path, so the choice is made per part)
        std::string const epoch = std::to_string(inst[i] / 1000000000ll);
        bool accepted = false;
        for (int combo = 1; combo < 4 && !accepted; ++combo)
        {
          TsCase alt = c;
          if (combo & 1) for (size_t pos = 0; (pos = alt.part1.find("%s", pos)) != std::string::npos; pos += epoch.size()) alt.part1.replace(pos, 2, epoch);
          if (combo & 2) for (size_t pos = 0; (pos = alt.part2.find("%s", pos)) != std::string::npos; pos += epoch.size()) alt.part2.replace(pos, 2, epoch);
          accepted = (got == ref_format(alt, inst[i]));
        }
        if (accepted)
        {
          ++ambiguous_s;
          continue;
        }
      }
      if (got != want)
      {
        bad = true;
        std::string hist;
        for (size_t k = i >= 3 ? i - 3 : 0; k <= i; ++k) hist += std::to_string(inst[k]) + " ";
        violation("C13", escaped_percent_letter(c.pattern) ? "rendered-time-differs:escaped-percent-letter" : "rendered-time-differs",
                  J{}.str("pattern", c.pattern).str("tz", g_tz).boolean("gmt", c.gmt).str("classes", c.klass).num("instant_ns", inst[i]).str("last_instants", hist).str("got", std::string{got}).str("want", want).unum("call_index", i));
      }
    }
    std::sort(kinds.begin(), kinds.end());
    kinds.erase(std::unique(kinds.begin(), kinds.end()), kinds.end());
    g_stats.sig("nontrivial", c.pattern + "|" + (c.gmt ? "G" : "L") + "|" + kinds);
    if (ci < 2) sample(J{}.str("pattern", c.pattern).str("tz", g_tz).boolean("gmt", c.gmt).num("first_instant_ns", inst.empty() ? 0 : inst[0]).str("rendered", inst.empty() ? "" : ref_format(c, inst[0])).str("instant_kinds", kinds));
  }
  g_stats.add("ts_cases", cases);
  g_stats.add("ts_calls", calls);
  g_stats.add("ts_rejection_cases", rejects);
  g_stats.add("ts_percent_s_at_ambiguous_local_time_accepted_as_true_epoch", ambiguous_s);
  g_stats.add("dst_transitions_found", g_dst.size());
  g_stats.sig("zones", g_tz);
  g_stats.flush();
  end_ok();
  return 0;
}

// ============================================================================================ C12
struct AttrDef
{
  char const* name;
};
static AttrDef const ATTRS[16] = {{"time"}, {"file_name"}, {"caller_function"}, {"log_level"}, {"log_level_short_code"},
                                  {"line_number"}, {"logger"}, {"full_path"}, {"thread_id"}, {"thread_name"},
                                  {"process_id"}, {"source_location"}, {"short_source_location"}, {"message"}, {"tags"}, {"named_args"}};

std::string rand_value(Rng& r, bool allow_newline = false)
{
  static char const chars[] = "abcdefghijklmnopqrstuvwxyzABCDEFXYZ0123456789 _-./:{}%()[]<>#\"'\\";
  uint64_t k = r.below(10);
  size_t len = k == 0 ? 0 : k < 6 ? r.range(1, 12) : k < 9 ? r.range(13, 80) : r.range(200, 2000);
  std::string s;
  for (size_t i = 0; i < len; ++i)
  {
    uint64_t x = r.below(40);
    if (x == 0) s += "%(";
    else if (x == 1) s += "{}";
    else if (x == 2) s += "\xc3\xa9"; // UTF-8
    else if (x == 3 && allow_newline) s += "\n";
    else s += chars[r.below(sizeof(chars) - 1)];
  }
  return s;
}

std::string rand_literal(Rng& r)
{
  static char const chars[] = "abcdefgXYZ0123456789 _-./:[]<>#\"'\\|=+,;!?@$^&*~()%";
  size_t len = r.range(0, 6);
  std::string s;
  for (size_t i = 0; i < len; ++i)
  {
    char ch = chars[r.below(sizeof(chars) - 1)];
    if (ch == '(' && !s.empty() && s.back() == '%') ch = ' '; // "%(" would start an attribute
    s += ch;
  }
  if (r.chance(1, 12)) s += "\xe2\x82\xac";
  return s;
}

std::string rand_spec(Rng& r)
{
  uint64_t k = r.below(8);
  if (k < 3) return "";
  std::string s = ":";
  if (k == 7) { s += r.pick({'*', '_', '.', '#', ' '}); s += r.pick({'<', '>', '^'}); }
  else s += r.pick({'<', '>', '^'});
  s += std::to_string(r.range(1, 40));
  if (r.chance(1, 8)) s += "." + std::to_string(r.range(0, 10));
  return s;
}

int run_pat(Args const& a)
{
  uint64_t seed = a.u("seed", 1), cases = a.u("cases", 2000);
  Rng r{mix(seed, 0x12)};
  setenv("TZ", "UTC", 1);
  tzset();
  uint64_t calls = 0, invalid = 0;
  std::vector<std::unique_ptr<std::string>> keep;
  for (uint64_t ci = 0; ci < cases; ++ci)
  {
    // ---------------- invalid patterns must be rejected at construction
    if (r.chance(1, 20))
    {
      std::string p = rand_literal(r);
      uint64_t k = r.below(3);
      if (k == 0) p += "%(" + std::string{r.pick({"foo", "Time", "msg", "level", "thread", "", "message "})} + ")";
      else if (k == 1) p += "%(" + std::string{ATTRS[r.below(16)].name};                // unterminated
      else p += "%(message) " + rand_literal(r) + "%(logger:<10";                         // unterminated with spec
      p += (k == 0 ? rand_literal(r) : std::string{});
      if (k != 0 && p.find(')') != std::string::npos && p.rfind(')') > p.rfind("%(")) { continue; }
      bool threw = false;
      try
      {
        quill::PatternFormatter pf{quill::PatternFormatterOptions{p, "%H:%M:%S.%Qns", quill::Timezone::GmtTime}};
      }
      catch (quill::QuillError const&)
      {
        threw = true;
      }
      catch (std::exception const&)
      {
        threw = true;
      }
      ++invalid;
      if (!threw) violation("C12", k == 0 ? "unknown-attribute-accepted" : "unterminated-attribute-accepted", J{}.str("pattern", p));
      continue;
    }
    // ---------------- a valid pattern: random subset and order, each attribute once
    std::vector<int> order;
    for (int i = 0; i < 16; ++i) order.push_back(i);
    for (int i = 15; i > 0; --i) std::swap(order[i], order[r.below(i + 1)]);
    size_t nattr = r.chance(1, 10) ? 16 : r.range(0, 16);
    order.resize(nattr);
    struct Seg
    {
      bool attr;
      int id;
      std::string text; // literal or spec
    };
    std::vector<Seg> segs;
    std::string pattern;
    for (size_t i = 0; i <= nattr; ++i)
    {
      std::string lit = rand_literal(r);
      if (!lit.empty())
      {
        // a literal must not end in '%' right before an attribute's "%(" -> "%%(" is still fine for quill ('%' then "%(")
        segs.push_back({false, 0, lit});
        pattern += lit;
      }
      if (i < nattr)
      {
        std::string spec = rand_spec(r);
        segs.push_back({true, order[i], spec});
        pattern += std::string{"%("} + ATTRS[order[i]].name + spec + ")";
      }
    }
    if (pattern.empty()) continue; // the empty pattern means "formatting disabled" (documented), not judged
    static char const* const tspats[] = {"%H:%M:%S.%Qns", "%Y-%m-%d %H:%M:%S.%Qus", "%D %T", "%s", "%H:%M:%S.%Qms %z"};
    std::string tspat = r.pick(tspats);
    std::unique_ptr<quill::PatternFormatter> pf;
    try
    {
      pf = std::make_unique<quill::PatternFormatter>(quill::PatternFormatterOptions{pattern, tspat, quill::Timezone::GmtTime});
    }
    catch (std::exception const& e)
    {
      violation("C12", "valid-pattern-rejected", J{}.str("pattern", pattern).str("what", e.what()));
      continue;
    }
    TsCase tc;
    tc.gmt = true;
    size_t qp = tspat.find("%Q");
    if (qp == std::string::npos) tc.part1 = tspat;
    else
    {
      tc.part1 = tspat.substr(0, qp);
      tc.part2 = tspat.substr(qp + 4);
      tc.frac = tspat[qp + 2] == 'm' ? 3 : tspat[qp + 2] == 'u' ? 6 : 9;
    }
    uint32_t const ncalls = static_cast<uint32_t>(r.range(1, 6));
    int64_t ts = static_cast<int64_t>(r.range(1000000000ull, 4000000000ull)) * 1000000000ll;
    // a user clock may start at the epoch (simulated / replayed time): 0 is a timestamp like any other, also as the
    // very first one a formatter sees; and consecutive statements may carry the same timestamp
    bool const from_epoch = r.chance(1, 10) && tspat.find("%s") == std::string::npos; // (%s is only defined for ten-digit epochs, C13)
    if (from_epoch) { ts = 0; g_stats.add("pat_cases_starting_at_timestamp_zero"); }
    for (uint32_t k = 0; k < ncalls; ++k)
    {
      if (!(from_epoch && k == 0) && !r.chance(1, 6)) ts += static_cast<int64_t>(r.below(5000000000ull));
      // source metadata: "dir/sub/file.cpp:123", no directory, deep paths, odd characters
      std::string dir;
      uint32_t depth = static_cast<uint32_t>(r.below(5));
      for (uint32_t d = 0; d < depth; ++d) dir += rand_value(r).substr(0, 12) + "/";
      // path components must not contain '/' or ':' (':' is the line separator searched from the right, so only the
      // part before the last ':' counts as path; we keep ':' out of file names to stay within what a compiler emits)
      for (auto& ch : dir) if (ch == ':') ch = '_';
      if (r.chance(1, 3) && depth) dir = "/" + dir;
      std::string fname = rand_value(r).substr(0, 20);
      for (auto& ch : fname) if (ch == ':' || ch == '/') ch = '_';
      if (fname.empty()) fname = "f.cpp";
      std::string line = std::to_string(r.chance(1, 5) ? r.range(0, 9) : r.range(10, 99999));
      keep.push_back(std::make_unique<std::string>(dir + fname + ":" + line));
      std::string const& srcloc = *keep.back();
      keep.push_back(std::make_unique<std::string>(rand_value(r)));
      std::string const& func = *keep.back();
      bool has_tags = r.chance(1, 2);
      keep.push_back(std::make_unique<std::string>(rand_value(r)));
      std::string const& tags = *keep.back();
      keep.push_back(std::make_unique<std::string>("{}"));
      quill::MacroMetadata md{srcloc.c_str(), func.c_str(), keep.back()->c_str(), has_tags ? tags.c_str() : nullptr,
                              quill::LogLevel::Info, quill::MacroMetadata::Event::Log};
      std::string vals[16];
      vals[0] = ref_format(tc, ts);
      vals[1] = fname;
      vals[2] = func;
      vals[3] = rand_value(r);
      vals[4] = rand_value(r);
      vals[5] = line;
      vals[6] = rand_value(r);
      vals[7] = dir + fname;
      vals[8] = rand_value(r);
      vals[9] = rand_value(r);
      vals[10] = rand_value(r);
      vals[11] = srcloc;
      vals[12] = fname + ":" + line;
      vals[13] = rand_value(r); // message (single line here; multi-line handling is judged end to end)
      vals[14] = has_tags ? tags : "";
      std::vector<std::pair<std::string, std::string>> na;
      bool has_na = r.chance(1, 2);
      if (has_na)
      {
        size_t n = r.below(4);
        for (size_t i = 0; i < n; ++i) na.emplace_back(rand_value(r).substr(0, 10), rand_value(r).substr(0, 30));
      }
      for (size_t i = 0; i < na.size(); ++i) vals[15] += na[i].first + ": " + na[i].second + (i + 1 < na.size() ? ", " : "");
      std::string want;
      for (auto const& s : segs)
      {
        if (!s.attr) want += s.text;
        else want += fmtquill::format(fmtquill::runtime("{" + s.text + "}"), std::string_view{vals[s.id]});
      }
      want += "\n";
      std::string_view got = pf->format(static_cast<uint64_t>(ts), vals[8], vals[9], vals[10], vals[6], vals[3], vals[4], md,
                                        has_na ? &na : nullptr, vals[13]);
      ++calls;
      if (got != want)
      {
        size_t d = 0;
        while (d < got.size() && d < want.size() && got[d] == want[d]) ++d;
        violation("C12", "line-differs-from-pattern-substitution",
                  J{}.str("pattern", pattern).str("ts_pattern", tspat).str("got", std::string{got}.substr(0, 400)).str("want", want.substr(0, 400)).unum("first_difference_at", d).unum("attributes", nattr).str("source_location", srcloc));
        break;
      }
      if (keep.size() > 4000) keep.clear();
    }
    std::string sig;
    for (auto const& s : segs) if (s.attr) sig += std::to_string(s.id) + s.text + ",";
    g_stats.sig("nontrivial", sig);
    if (ci < 2) sample(J{}.str("pattern", pattern).str("ts_pattern", tspat).unum("attributes", nattr));
  }
  g_stats.add("pat_cases", cases);
  g_stats.add("pat_calls", calls);
  g_stats.add("pat_invalid_pattern_cases", invalid);
  g_stats.flush();
  end_ok();
  return 0;
}
} // namespace

int main(int argc, char** argv)
{
  Args a{argc, argv};
  std::string mode = a.s("mode", "ts");
  if (mode == "ts") return run_ts(a);
  return run_pat(a);
}
