// C04 / C11: a catalogue of statement shapes (argument type lists are compile-time in quill) driven with random values.
//   mode fmt   : log through the real frontend, then overwrite/clear/free every argument, then let the backend run
//                (ManualBackendWorker on this thread): the sink's message must equal fmtquill::format evaluated BEFORE
//                the call (after an independent re-implementation of the hex escaping); a sentinel statement follows each.
//   mode codec : compute_encoded_size / encode into an exact-size buffer between canaries / decode: sizes must agree.
//   mode alloc : real backend thread; interposed malloc/mmap counters armed around each log call must stay 0 for the
//                property's class of types; user formatters record the thread they run on.
// The catalogue is split into CODEC_PARTS parts (one binary each) to keep compile times parallel.
#define VF_INTERPOSE_MMAP
#define VF_INTERPOSE_MALLOC
#include "common/interpose.h"
#include "common/rec.h"
#include "common/util.h"

#include "quill/Backend.h"
#include "quill/DeferredFormatCodec.h"
#include "quill/DirectFormatCodec.h"
#include "quill/Frontend.h"
#include "quill/LogMacros.h"
#include "quill/Logger.h"
#include "quill/backend/ManualBackendWorker.h"
#include "quill/std/Array.h"
#include "quill/std/Chrono.h"
#include "quill/std/Deque.h"
#include "quill/std/FilesystemPath.h"
#include "quill/std/ForwardList.h"
#include "quill/std/List.h"
#include "quill/std/Map.h"
#include "quill/std/Optional.h"
#include "quill/std/Pair.h"
#include "quill/std/Set.h"
#include "quill/std/Tuple.h"
#include "quill/std/UnorderedMap.h"
#include "quill/std/UnorderedSet.h"
#include "quill/std/Vector.h"

#include <cmath>
#include <sys/syscall.h>

#ifndef CODEC_PART
  #define CODEC_PART 0
#endif
#ifndef CODEC_PARTS
  #define CODEC_PARTS 4
#endif

using namespace vf;

// ------------------------------------------------------------------------------------------------ user types
namespace ut
{
inline std::atomic<uint32_t> g_last_fmt_tid{0};
inline std::atomic<uint64_t> g_fmt_calls{0};
inline std::atomic<uint32_t> g_watched_tid{0};
inline std::atomic<uint64_t> g_fmt_calls_on_watched_tid{0};
inline void note_fmt_thread()
{
  uint32_t const t = static_cast<uint32_t>(syscall(SYS_gettid));
  g_last_fmt_tid.store(t, std::memory_order_relaxed);
  g_fmt_calls.fetch_add(1, std::memory_order_relaxed);
  if (t == g_watched_tid.load(std::memory_order_relaxed)) g_fmt_calls_on_watched_tid.fetch_add(1, std::memory_order_relaxed);
}
struct DefTrivial // trivially copyable, deferred format
{
  int a;
  double b;
  char c[12];
};
struct DefString // deferred format with an allocating copy constructor (excluded from the no-allocation class)
{
  std::string name;
  uint32_t v;
};
struct DirectT // formatted at the call site (documented opt-in)
{
  int x;
  std::string s;
};
template <size_t N>
struct DefSized // trivially copyable deferred-format type of exactly N bytes (small, cache-line sized, larger than any inline threshold)
{
  uint32_t tag;
  unsigned char pad[N - sizeof(uint32_t)];
};
enum PlainEnum : int
{
  PE_A = 0,
  PE_B = 7,
  PE_C = -3
};
inline int format_as(PlainEnum e) { return static_cast<int>(e); }
enum class Scoped : uint8_t
{
  Red = 1,
  Green = 2,
  Blue = 200
};
inline std::string_view format_as(Scoped s) { return s == Scoped::Red ? "Red" : s == Scoped::Green ? "Green" : "Blue"; }
enum class DirectEnum : uint8_t // an enum whose Codec is specialised by the user (direct format): names of different lengths
{
  A = 0,
  Bee = 1,
  CeeCeeCeeCeeCeeCeeCee = 2
};
} // namespace ut
template <>
struct fmtquill::formatter<ut::DirectEnum>
{
  constexpr auto parse(format_parse_context& ctx) { return ctx.begin(); }
  auto format(ut::DirectEnum e, format_context& ctx) const
  {
    ut::note_fmt_thread();
    return fmtquill::format_to(ctx.out(), "{}", e == ut::DirectEnum::A ? "A" : e == ut::DirectEnum::Bee ? "Bee" : "CeeCeeCeeCeeCeeCeeCee");
  }
};
template <>
struct quill::Codec<ut::DirectEnum> : quill::DirectFormatCodec<ut::DirectEnum>
{
};

template <>
struct fmtquill::formatter<ut::DefTrivial>
{
  constexpr auto parse(format_parse_context& ctx) { return ctx.begin(); }
  auto format(ut::DefTrivial const& d, format_context& ctx) const
  {
    ut::note_fmt_thread();
    return fmtquill::format_to(ctx.out(), "DT({},{},{})", d.a, d.b, std::string_view{d.c, strnlen(d.c, sizeof d.c)});
  }
};
template <>
struct quill::Codec<ut::DefTrivial> : quill::DeferredFormatCodec<ut::DefTrivial>
{
};
template <size_t N>
struct fmtquill::formatter<ut::DefSized<N>>
{
  constexpr auto parse(format_parse_context& ctx) { return ctx.begin(); }
  auto format(ut::DefSized<N> const& d, format_context& ctx) const
  {
    ut::note_fmt_thread();
    uint32_t sum = 0;
    for (unsigned char c : d.pad) sum = sum * 31u + c;
    return fmtquill::format_to(ctx.out(), "DZ{}({},{})", N, d.tag, sum);
  }
};
template <size_t N>
struct quill::Codec<ut::DefSized<N>> : quill::DeferredFormatCodec<ut::DefSized<N>>
{
};
template <>
struct fmtquill::formatter<ut::DefString>
{
  constexpr auto parse(format_parse_context& ctx) { return ctx.begin(); }
  auto format(ut::DefString const& d, format_context& ctx) const
  {
    ut::note_fmt_thread();
    return fmtquill::format_to(ctx.out(), "DS({},{})", d.name, d.v);
  }
};
template <>
struct quill::Codec<ut::DefString> : quill::DeferredFormatCodec<ut::DefString>
{
};
template <>
struct fmtquill::formatter<ut::DirectT>
{
  constexpr auto parse(format_parse_context& ctx) { return ctx.begin(); }
  auto format(ut::DirectT const& d, format_context& ctx) const
  {
    ut::note_fmt_thread();
    return fmtquill::format_to(ctx.out(), "DR({},{})", d.x, d.s);
  }
};
template <>
struct quill::Codec<ut::DirectT> : quill::DirectFormatCodec<ut::DirectT>
{
};

namespace
{
Stats g_stats;
using Fe = quill::Frontend;
using Lg = quill::Logger;

// ------------------------------------------------------------------------------------------------ value generators
// G<T>::Owner owns the storage; arg(owner) is what is passed to the log call; scramble(owner) overwrites / clears /
// frees it after the call returned. kind: 0 arithmetic-like, 1 string-like, 2 container/other
bool g_printable_only = true;
char rand_char(Rng& r)
{
  if (g_printable_only || r.chance(9, 10)) return static_cast<char>(r.range(' ', '~'));
  static char const np[] = {'\x01', '\x1f', '\x7f', '\t', '\r', '\x80', '\xff', '\x00'};
  return np[r.below(sizeof np)];
}
std::string rand_string(Rng& r, bool allow_nul = true)
{
  static size_t const lens[] = {0, 1, 2, 7, 15, 16, 17, 31, 32, 100, 255, 256, 257, 1000};
  size_t n = r.chance(1, 3) ? lens[r.below(sizeof lens / sizeof lens[0])] : r.below(40);
  std::string s(n, ' ');
  for (auto& c : s)
  {
    c = rand_char(r);
    if (!allow_nul && c == '\0') c = 'z';
  }
  return s;
}

template <typename T, typename = void>
struct G;

template <typename T>
struct G<T, std::enable_if_t<std::is_integral_v<T> && !std::is_same_v<T, bool> && !std::is_same_v<T, char>>>
{
  using Owner = T;
  static constexpr bool alloc_free_class = true;
  static Owner make(Rng& r)
  {
    switch (r.below(5))
    {
    case 0: return std::numeric_limits<T>::min();
    case 1: return std::numeric_limits<T>::max();
    case 2: return T{0};
    default: return static_cast<T>(r.next());
    }
  }
  static T const& arg(Owner const& o) { return o; }
  static void scramble(Owner& o) { o = static_cast<T>(static_cast<std::make_unsigned_t<T>>(o) * 3u + 1u); }
};
template <>
struct G<bool>
{
  using Owner = bool;
  static constexpr bool alloc_free_class = true;
  static Owner make(Rng& r) { return r.chance(1, 2); }
  static bool const& arg(Owner const& o) { return o; }
  static void scramble(Owner& o) { o = !o; }
};
template <>
struct G<char>
{
  using Owner = char;
  static constexpr bool alloc_free_class = true;
  static Owner make(Rng& r) { char c = rand_char(r); return c == '\0' ? 'q' : c; }
  static char const& arg(Owner const& o) { return o; }
  static void scramble(Owner& o) { o = '#'; }
};
template <typename T>
struct G<T, std::enable_if_t<std::is_floating_point_v<T>>>
{
  using Owner = T;
  static constexpr bool alloc_free_class = true;
  static Owner make(Rng& r)
  {
    switch (r.below(9))
    {
    case 0: return T{0};
    case 1: return -T{0};
    case 2: return std::numeric_limits<T>::quiet_NaN();
    case 3: return std::numeric_limits<T>::infinity();
    case 4: return -std::numeric_limits<T>::infinity();
    case 5: return std::numeric_limits<T>::max();
    case 6: return std::numeric_limits<T>::denorm_min();
    default: return static_cast<T>(static_cast<double>(static_cast<int64_t>(r.next())) / 977.0);
    }
  }
  static T const& arg(Owner const& o) { return o; }
  static void scramble(Owner& o) { o = T{123.25}; }
};
template <>
struct G<ut::PlainEnum>
{
  using Owner = ut::PlainEnum;
  static constexpr bool alloc_free_class = true;
  static Owner make(Rng& r) { return r.pick({ut::PE_A, ut::PE_B, ut::PE_C}); }
  static Owner const& arg(Owner const& o) { return o; }
  static void scramble(Owner& o) { o = ut::PE_A; }
};
template <>
struct G<ut::Scoped>
{
  using Owner = ut::Scoped;
  static constexpr bool alloc_free_class = true;
  static Owner make(Rng& r) { return r.pick({ut::Scoped::Red, ut::Scoped::Green, ut::Scoped::Blue}); }
  static Owner const& arg(Owner const& o) { return o; }
  static void scramble(Owner& o) { o = ut::Scoped::Red; }
};
template <>
struct G<ut::DirectEnum>
{
  using Owner = ut::DirectEnum;
  static constexpr bool alloc_free_class = false; // direct format
  static Owner make(Rng& r) { return r.pick({ut::DirectEnum::A, ut::DirectEnum::Bee, ut::DirectEnum::CeeCeeCeeCeeCeeCeeCee}); }
  static Owner const& arg(Owner const& o) { return o; }
  static void scramble(Owner& o) { o = ut::DirectEnum::A; }
};
template <>
struct G<void const*>
{
  using Owner = void const*;
  static constexpr bool alloc_free_class = true;
  static Owner make(Rng& r) { return r.chance(1, 4) ? nullptr : reinterpret_cast<void const*>(r.next()); }
  static Owner const& arg(Owner const& o) { return o; }
  static void scramble(Owner& o) { o = reinterpret_cast<void const*>(0x1234); }
};
template <>
struct G<std::string>
{
  using Owner = std::string;
  static constexpr bool alloc_free_class = true;
  static Owner make(Rng& r) { return rand_string(r); }
  static std::string const& arg(Owner const& o) { return o; }
  static void scramble(Owner& o)
  {
    for (auto& c : o) c = '!';
    o.clear();
    o.shrink_to_fit();
  }
};
struct SvOwner
{
  std::unique_ptr<char[]> buf;
  size_t n{0};
  std::string_view sv;
};
template <>
struct G<std::string_view>
{
  using Owner = SvOwner;
  static constexpr bool alloc_free_class = true;
  static Owner make(Rng& r)
  {
    std::string s = rand_string(r);
    Owner o;
    if (s.empty() && r.chance(1, 2)) return o; // default constructed view: data() == nullptr
    o.n = s.size();
    o.buf = std::make_unique<char[]>(o.n + 1);
    memcpy(o.buf.get(), s.data(), o.n);
    o.sv = std::string_view{o.buf.get(), o.n};
    return o;
  }
  static std::string_view const& arg(Owner const& o) { return o.sv; }
  static void scramble(Owner& o)
  {
    if (o.buf) memset(o.buf.get(), '!', o.n);
    o.buf.reset(); // freed: a kept view would be a use-after-free (ASan)
    o.sv = {};
  }
};
struct CstrOwner
{
  std::unique_ptr<char[]> buf;
  char const* p{nullptr};
};
template <>
struct G<char const*>
{
  using Owner = CstrOwner;
  static constexpr bool alloc_free_class = true;
  static Owner make(Rng& r)
  {
    Owner o;
    if (r.chance(1, 12)) return o; // null pointer
    std::string s = rand_string(r, false);
    o.buf = std::make_unique<char[]>(s.size() + 1);
    memcpy(o.buf.get(), s.c_str(), s.size() + 1);
    o.p = o.buf.get();
    return o;
  }
  static char const* const& arg(Owner const& o) { return o.p; }
  static void scramble(Owner& o)
  {
    if (o.buf) memset(o.buf.get(), '!', strlen(o.buf.get()));
    o.buf.reset();
    o.p = nullptr;
  }
};
// char[N], terminated or not
template <size_t N>
struct G<char[N]>
{
  struct Owner
  {
    char a[N];
  };
  static constexpr bool alloc_free_class = true;
  static Owner make(Rng& r)
  {
    Owner o;
    size_t len = r.chance(1, 3) ? N : r.below(N); // N = unterminated
    for (size_t i = 0; i < N; ++i)
    {
      char c = rand_char(r);
      o.a[i] = (i < len) ? (c == '\0' ? 'k' : c) : '\0';
    }
    return o;
  }
  static char const (&arg(Owner const& o))[N] { return o.a; }
  static void scramble(Owner& o) { memset(o.a, '!', N); }
};
// containers are generated from value-owning element types only (elements own their storage)
template <typename C>
C make_seq(Rng& r)
{
  using T = typename C::value_type;
  C c;
  size_t n = r.chance(1, 5) ? 0 : r.below(6);
  for (size_t i = 0; i < n; ++i) c.insert(c.end(), G<T>::arg(G<T>::make(r)));
  return c;
}
template <typename T>
struct GSeq
{
  using Owner = T;
  static Owner make(Rng& r) { return make_seq<Owner>(r); }
  static Owner const& arg(Owner const& o) { return o; }
  static void scramble(Owner& o) { o = Owner{}; }
};
template <typename T> struct G<std::vector<T>> : GSeq<std::vector<T>> { static constexpr bool alloc_free_class = G<T>::alloc_free_class; };
template <typename T> struct G<std::deque<T>> : GSeq<std::deque<T>> { static constexpr bool alloc_free_class = G<T>::alloc_free_class; };
template <typename T> struct G<std::list<T>> : GSeq<std::list<T>> { static constexpr bool alloc_free_class = G<T>::alloc_free_class; };
template <typename T, typename C> struct G<std::set<T, C>> : GSeq<std::set<T, C>> { static constexpr bool alloc_free_class = G<T>::alloc_free_class; };
template <typename T, typename C> struct G<std::multiset<T, C>> : GSeq<std::multiset<T, C>> { static constexpr bool alloc_free_class = G<T>::alloc_free_class; };
template <typename T> struct G<std::unordered_set<T>> : GSeq<std::unordered_set<T>> { static constexpr bool alloc_free_class = G<T>::alloc_free_class; };
template <typename T>
struct G<std::forward_list<T>>
{
  using Owner = std::forward_list<T>;
  static constexpr bool alloc_free_class = G<T>::alloc_free_class;
  static Owner make(Rng& r)
  {
    Owner o;
    size_t n = r.below(5);
    for (size_t i = 0; i < n; ++i) o.push_front(G<T>::arg(G<T>::make(r)));
    return o;
  }
  static Owner const& arg(Owner const& o) { return o; }
  static void scramble(Owner& o) { o.clear(); }
};
template <typename T, size_t N>
struct G<std::array<T, N>>
{
  using Owner = std::array<T, N>;
  static constexpr bool alloc_free_class = G<T>::alloc_free_class;
  static Owner make(Rng& r)
  {
    Owner o{};
    for (auto& e : o) e = G<T>::arg(G<T>::make(r));
    return o;
  }
  static Owner const& arg(Owner const& o) { return o; }
  static void scramble(Owner& o) { o = Owner{}; }
};
template <typename K, typename V, typename M>
struct GMap
{
  using Owner = M;
  static constexpr bool alloc_free_class = G<K>::alloc_free_class && G<V>::alloc_free_class;
  static Owner make(Rng& r)
  {
    Owner o;
    size_t n = r.below(5);
    for (size_t i = 0; i < n; ++i) o.insert({G<K>::arg(G<K>::make(r)), G<V>::arg(G<V>::make(r))});
    return o;
  }
  static Owner const& arg(Owner const& o) { return o; }
  static void scramble(Owner& o) { o.clear(); }
};
template <typename K, typename V, typename C> struct G<std::map<K, V, C>> : GMap<K, V, std::map<K, V, C>> {};
template <typename K, typename V> struct G<std::multimap<K, V>> : GMap<K, V, std::multimap<K, V>> {};
template <typename K, typename V> struct G<std::unordered_map<K, V>> : GMap<K, V, std::unordered_map<K, V>> {};
template <typename T>
struct G<std::optional<T>>
{
  using Owner = std::optional<T>;
  static constexpr bool alloc_free_class = G<T>::alloc_free_class;
  static Owner make(Rng& r) { return r.chance(1, 3) ? Owner{} : Owner{G<T>::arg(G<T>::make(r))}; }
  static Owner const& arg(Owner const& o) { return o; }
  static void scramble(Owner& o) { o.reset(); }
};
template <typename A, typename B>
struct G<std::pair<A, B>>
{
  using Owner = std::pair<A, B>;
  static constexpr bool alloc_free_class = G<A>::alloc_free_class && G<B>::alloc_free_class;
  static Owner make(Rng& r) { return Owner{G<A>::arg(G<A>::make(r)), G<B>::arg(G<B>::make(r))}; }
  static Owner const& arg(Owner const& o) { return o; }
  static void scramble(Owner& o) { o = Owner{}; }
};
template <typename... Ts>
struct G<std::tuple<Ts...>>
{
  using Owner = std::tuple<Ts...>;
  static constexpr bool alloc_free_class = (G<Ts>::alloc_free_class && ...);
  static Owner make(Rng& r) { return Owner{G<Ts>::arg(G<Ts>::make(r))...}; }
  static Owner const& arg(Owner const& o) { return o; }
  static void scramble(Owner& o) { o = Owner{}; }
};
template <typename Rep, typename Per>
struct G<std::chrono::duration<Rep, Per>>
{
  using Owner = std::chrono::duration<Rep, Per>;
  static constexpr bool alloc_free_class = true;
  static Owner make(Rng& r) { return Owner{static_cast<Rep>(r.below(100000000))}; }
  static Owner const& arg(Owner const& o) { return o; }
  static void scramble(Owner& o) { o = Owner{1}; }
};
template <>
struct G<std::chrono::system_clock::time_point>
{
  using Owner = std::chrono::system_clock::time_point;
  static constexpr bool alloc_free_class = true;
  static Owner make(Rng& r) { return Owner{std::chrono::seconds{static_cast<int64_t>(r.range(1000000000ull, 4000000000ull))}}; }
  static Owner const& arg(Owner const& o) { return o; }
  static void scramble(Owner& o) { o = Owner{}; }
};
template <>
struct G<std::filesystem::path>
{
  using Owner = std::filesystem::path;
  static constexpr bool alloc_free_class = false; // copied through a temporary string (documented)
  static Owner make(Rng& r)
  {
    std::string s = "/";
    size_t n = r.below(4);
    for (size_t i = 0; i < n; ++i) s += "d" + std::to_string(r.below(100)) + "/";
    return Owner{s + "f.txt"};
  }
  static Owner const& arg(Owner const& o) { return o; }
  static void scramble(Owner& o) { o.clear(); }
};
template <>
struct G<ut::DefTrivial>
{
  using Owner = ut::DefTrivial;
  static constexpr bool alloc_free_class = true;
  static Owner make(Rng& r)
  {
    Owner o{};
    o.a = static_cast<int>(r.next());
    o.b = static_cast<double>(r.below(100000)) / 8.0;
    size_t n = r.below(12);
    for (size_t i = 0; i < n; ++i) o.c[i] = static_cast<char>(r.range('a', 'z'));
    return o;
  }
  static Owner const& arg(Owner const& o) { return o; }
  static void scramble(Owner& o) { memset(&o, 0x21, sizeof o); }
};
template <size_t N>
struct G<ut::DefSized<N>>
{
  using Owner = ut::DefSized<N>;
  static constexpr bool alloc_free_class = true;
  static Owner make(Rng& r)
  {
    Owner o{};
    o.tag = static_cast<uint32_t>(r.next());
    for (auto& c : o.pad) c = static_cast<unsigned char>(r.next());
    return o;
  }
  static Owner const& arg(Owner const& o) { return o; }
  static void scramble(Owner& o) { memset(&o, 0x21, sizeof o); }
};
// composites holding C strings: the pointed-to storage is owned next to the value (freed by scramble)
static CstrOwner make_nonnull_cstr(Rng& r)
{
  CstrOwner o;
  do o = G<char const*>::make(r); while (!o.p);
  return o;
}
struct OptCstrOwner
{
  CstrOwner in;
  std::optional<char const*> v;
};
template <>
struct G<std::optional<char const*>>
{
  using Owner = OptCstrOwner;
  static constexpr bool alloc_free_class = true;
  static Owner make(Rng& r)
  {
    Owner o;
    if (!r.chance(1, 4))
    {
      o.in = make_nonnull_cstr(r);
      o.v = o.in.p;
    }
    return o;
  }
  static std::optional<char const*> const& arg(Owner const& o) { return o.v; }
  static void scramble(Owner& o) { G<char const*>::scramble(o.in); o.v.reset(); }
};
template <typename B>
struct PairCstrOwner
{
  CstrOwner in;
  std::pair<char const*, B> v;
};
template <typename B>
struct G<std::pair<char const*, B>>
{
  using Owner = PairCstrOwner<B>;
  static constexpr bool alloc_free_class = G<B>::alloc_free_class;
  static Owner make(Rng& r)
  {
    Owner o;
    o.in = make_nonnull_cstr(r);
    o.v = {o.in.p, G<B>::arg(G<B>::make(r))};
    return o;
  }
  static std::pair<char const*, B> const& arg(Owner const& o) { return o.v; }
  static void scramble(Owner& o) { G<char const*>::scramble(o.in); o.v.first = ""; }
};
struct TupCstrOwner
{
  CstrOwner a, b;
  std::tuple<char const*, int32_t, char const*> v;
};
template <>
struct G<std::tuple<char const*, int32_t, char const*>>
{
  using Owner = TupCstrOwner;
  static constexpr bool alloc_free_class = true;
  static Owner make(Rng& r)
  {
    Owner o;
    o.a = make_nonnull_cstr(r);
    o.b = make_nonnull_cstr(r);
    o.v = {o.a.p, static_cast<int32_t>(r.next()), o.b.p};
    return o;
  }
  static std::tuple<char const*, int32_t, char const*> const& arg(Owner const& o) { return o.v; }
  static void scramble(Owner& o) { G<char const*>::scramble(o.a); G<char const*>::scramble(o.b); o.v = {"", 0, ""}; }
};
struct VecCstrOwner
{
  std::vector<CstrOwner> in;
  std::vector<char const*> v;
};
template <>
struct G<std::vector<char const*>>
{
  using Owner = VecCstrOwner;
  static constexpr bool alloc_free_class = true;
  static Owner make(Rng& r)
  {
    Owner o;
    size_t n = r.below(5);
    for (size_t i = 0; i < n; ++i) o.in.push_back(make_nonnull_cstr(r));
    for (auto const& c : o.in) o.v.push_back(c.p);
    return o;
  }
  static std::vector<char const*> const& arg(Owner const& o) { return o.v; }
  static void scramble(Owner& o) { for (auto& c : o.in) G<char const*>::scramble(c); o.v.clear(); }
};
template <>
struct G<ut::DefString>
{
  using Owner = ut::DefString;
  static constexpr bool alloc_free_class = false; // its copy constructor allocates (excluded by the property)
  static Owner make(Rng& r) { return Owner{rand_string(r, false), static_cast<uint32_t>(r.next())}; }
  static Owner const& arg(Owner const& o) { return o; }
  static void scramble(Owner& o) { o.name.assign(o.name.size(), '!'); o.name.clear(); o.v = 0; }
};
template <>
struct G<ut::DirectT>
{
  using Owner = ut::DirectT;
  static constexpr bool alloc_free_class = false; // direct format: formatted at the call site (documented opt-in)
  static Owner make(Rng& r) { return Owner{static_cast<int>(r.next()), rand_string(r, false)}; }
  static Owner const& arg(Owner const& o) { return o; }
  static void scramble(Owner& o) { o.s.assign(o.s.size(), '!'); o.s.clear(); o.x = 0; }
};

// what the reference formatting sees: the argument itself, except a null C string, which quill logs as an empty string
template <typename T>
struct R
{
  static decltype(auto) ref(typename G<T>::Owner const& o) { return G<T>::arg(o); }
};
template <size_t N>
struct R<char[N]>
{
  // a char array is logged up to its first NUL, or completely when it has none
  static std::string_view ref(typename G<char[N]>::Owner const& o) { return std::string_view{o.a, strnlen(o.a, N)}; }
};
template <>
struct R<char const*>
{
  static char const* ref(CstrOwner const& o) { return o.p ? o.p : ""; }
};

// ------------------------------------------------------------------------------------------------ format strings
template <size_t N>
struct Fmt
{
  // "{}|{}|...|{}" with N placeholders
  static constexpr size_t len = N == 0 ? 1 : N * 3;
  char s[len + 1]{};
  constexpr Fmt()
  {
    size_t p = 0;
    for (size_t i = 0; i < N; ++i)
    {
      s[p++] = '{';
      s[p++] = '}';
      if (i + 1 < N) s[p++] = '|';
    }
    if (N == 0) s[p++] = 'e';
    s[p] = '\0';
  }
};
template <size_t N>
inline constexpr Fmt<N> kFmt{};

std::string my_escape(std::string const& in)
{
  // independent re-implementation of the default sanitisation: printable = ' '..'~' and '\n'
  std::string out;
  for (unsigned char c : in)
  {
    if ((c >= ' ' && c <= '~') || c == '\n') out += static_cast<char>(c);
    else
    {
      static char const hex[] = "0123456789ABCDEF";
      out += "\\x";
      out += hex[c >> 4];
      out += hex[c & 15];
    }
  }
  return out;
}

// ------------------------------------------------------------------------------------------------ shape runner
enum class Mode
{
  Fmt,
  Codec,
  Alloc
};
Mode g_mode = Mode::Fmt;
Lg* g_logger = nullptr;
std::shared_ptr<RecSink> g_sink;
quill::ManualBackendWorker* g_manual = nullptr;
bool g_accept_all = false;
uint32_t g_backend_tid = 0;
uint64_t g_cases = 0;
bool g_failed = false;

std::string last_message(size_t& count)
{
  auto evs = recorder().snapshot();
  std::string m;
  count = 0;
  for (auto const& e : evs)
    if (e.kind == 'w') { ++count; if (count == 1) m = e.msg; }
  return m;
}

template <typename T> struct is_unordered : std::false_type {};
template <typename T> struct is_unordered<std::unordered_set<T>> : std::true_type {};
template <typename K, typename V> struct is_unordered<std::unordered_map<K, V>> : std::true_type {};
// the iteration order of an unordered container is not part of its value: such shapes are compared as multisets of characters
inline bool same_text(std::string a, std::string b, bool unordered)
{
  if (!unordered) return a == b;
  std::sort(a.begin(), a.end());
  std::sort(b.begin(), b.end());
  return a == b;
}

template <typename... Ts>
struct Shape
{
  static constexpr size_t N = sizeof...(Ts);
  static constexpr bool unordered = (is_unordered<Ts>::value || ...);
  static constexpr quill::MacroMetadata md{"shape.cpp:1", "fn", kFmt<N>.s, nullptr, quill::LogLevel::Info, quill::MacroMetadata::Event::Log};
  static constexpr quill::MacroMetadata sentinel_md{"shape.cpp:2", "fn", "SENTINEL {}", nullptr, quill::LogLevel::Info, quill::MacroMetadata::Event::Log};
  // C strings and char arrays cache their length in the thread's size cache (inline capacity 12): statements with more
  // than twelve of them are outside the property's no-allocation class (they are in the catalogue for C04)
  static constexpr size_t cached_sizes = ((std::is_same_v<Ts, char const*> || std::is_array_v<Ts> ? 1 : std::is_same_v<Ts, std::optional<char const*>> || std::is_same_v<Ts, std::pair<char const*, int32_t>> ? 1 : std::is_same_v<Ts, std::tuple<char const*, int32_t, char const*>> ? 2 : std::is_same_v<Ts, std::vector<char const*>> ? 4 : 0) + ...);
  static constexpr bool alloc_free_class = (G<Ts>::alloc_free_class && ...) && cached_sizes <= 12;
  static constexpr bool has_direct = ((std::is_same_v<Ts, ut::DirectT> || std::is_same_v<Ts, ut::DirectEnum>) || ...);
  // a direct-format type nested in an optional: formatted at the call site only when engaged (no demand either way in
  // alloc mode), and decoded as a string, which the optional formatter quotes and escapes (recorded finding class)
  static constexpr bool nested_direct = (std::is_same_v<Ts, std::optional<ut::DirectT>> || ...);

  template <size_t... I>
  static void run_impl(char const* name, Rng& r, uint32_t reps, std::index_sequence<I...>)
  {
    for (uint32_t rep = 0; rep < reps && !g_failed; ++rep)
    {
      std::tuple<typename G<Ts>::Owner...> owners{G<Ts>::make(r)...};
      ++g_cases;
      if (g_mode == Mode::Fmt)
      {
        std::string expected = fmtquill::format(fmtquill::runtime(kFmt<N>.s), R<Ts>::ref(std::get<I>(owners))...);
        if (!g_accept_all) expected = my_escape(expected);
        recorder().clear();
        uint32_t const marker = static_cast<uint32_t>(r.next());
        g_logger->template log_statement<false, false>(quill::LogLevel::None, &md, G<Ts>::arg(std::get<I>(owners))...);
        // deep copy: whatever the caller does to the arguments afterwards must not change the output
        (G<Ts>::scramble(std::get<I>(owners)), ...);
        g_logger->template log_statement<false, false>(quill::LogLevel::None, &sentinel_md, marker);
        g_manual->poll();
        auto evs = recorder().snapshot();
        std::vector<std::string> msgs;
        for (auto const& e : evs) if (e.kind == 'w') msgs.push_back(e.msg);
        std::string const want_sentinel = "SENTINEL " + std::to_string(marker);
        if (msgs.size() != 2 || !same_text(msgs[0], expected, unordered) || msgs[1] != want_sentinel)
        {
          size_t d = 0;
          std::string got = msgs.empty() ? "<nothing>" : msgs[0];
          while (d < got.size() && d < expected.size() && got[d] == expected[d]) ++d;
          violation("C04", msgs.size() == 2 && same_text(msgs[0], expected, unordered) ? "statement-after-it-derailed" : nested_direct ? "async-message-differs-from-call-site-formatting:direct-format-type-nested-in-composite" : "async-message-differs-from-call-site-formatting",
                    J{}.str("shape", name).str("got", got.substr(0, 300)).str("want", expected.substr(0, 300)).unum("first_difference_at", d).unum("messages", msgs.size()).str("sentinel", msgs.size() > 1 ? msgs[1].substr(0, 60) : "").boolean("accept_all_chars", g_accept_all));
          if (!nested_direct || msgs.size() != 2 || msgs[1] != want_sentinel) g_failed = true;
        }
      }
      else if (g_mode == Mode::Codec)
      {
        quill::detail::SizeCacheVector cache;
        size_t const s = quill::detail::compute_encoded_size_and_cache_string_lengths(cache, G<Ts>::arg(std::get<I>(owners))...);
        // exact-size buffer between canaries, at every alignment offset in turn
        size_t const off = rep % 16;
        std::vector<std::byte> buf(s + 64 + off, std::byte{0xA5});
        std::byte* const begin = buf.data() + 32 + off;
        std::byte* w = begin;
        quill::detail::encode(w, cache, G<Ts>::arg(std::get<I>(owners))...);
        size_t const written = static_cast<size_t>(w - begin);
        bool canary_ok = true;
        for (size_t i = 0; i < 32 + off; ++i) if (buf[i] != std::byte{0xA5}) canary_ok = false;
        for (size_t i = 32 + off + s; i < buf.size(); ++i) if (buf[i] != std::byte{0xA5}) canary_ok = false;
        std::string expected = fmtquill::format(fmtquill::runtime(kFmt<N>.s), R<Ts>::ref(std::get<I>(owners))...);
        quill::DynamicFormatArgStore store;
        std::byte* rd = begin;
        quill::detail::decode_and_store_args<quill::detail::remove_cvref_t<decltype(G<Ts>::arg(std::get<I>(owners)))>...>(rd, store);
        size_t const consumed = static_cast<size_t>(rd - begin);
        std::string got;
        fmtquill::vformat_to(std::back_inserter(got), kFmt<N>.s, fmtquill::basic_format_args<fmtquill::format_context>{store.data(), store.size()});
        if (written != s || consumed != s || !canary_ok || !same_text(got, expected, unordered))
        {
          bool const only_text = canary_ok && written == s && consumed == s;
          violation("C04", !canary_ok ? "encode-wrote-outside-reserved-space" : written != s ? "encoded-bytes-differ-from-computed-size" : consumed != s ? "decoded-bytes-differ-from-computed-size" : nested_direct ? "decoded-arguments-format-differently:direct-format-type-nested-in-composite" : "decoded-arguments-format-differently",
                    J{}.str("shape", name).unum("computed", s).unum("written", written).unum("consumed", consumed).boolean("canaries_intact", canary_ok).str("got", got.substr(0, 200)).str("want", expected.substr(0, 200)));
          if (!(nested_direct && only_text)) g_failed = true;
        }
      }
      else
      {
        // alloc mode: arguments are built (above) before arming; the queue has room (flushed every statement)
        uint32_t const caller = static_cast<uint32_t>(syscall(SYS_gettid));
        uint64_t const fmt_before = ut::g_fmt_calls.load();
        tl_alloc().reset();
        uint64_t heap, maps;
        {
          ArmAlloc arm;
          g_logger->template log_statement<false, false>(quill::LogLevel::None, &md, G<Ts>::arg(std::get<I>(owners))...);
          heap = tl_alloc().heap_allocs;
          maps = tl_alloc().mmaps;
        }
        uint64_t const fmt_during_call = ut::g_fmt_calls.load() - fmt_before;
        uint32_t const fmt_tid_during = ut::g_last_fmt_tid.load();
        if (alloc_free_class && (heap || maps))
        {
          violation("C11", "log-call-allocated-on-the-calling-thread", J{}.str("shape", name).unum("heap_allocations", heap).unum("mmaps", maps).unum("bytes", tl_alloc().heap_bytes));
          g_failed = true;
        }
        if (!has_direct && !nested_direct && fmt_during_call && fmt_tid_during == caller)
        {
          violation("C11", "deferred-type-formatted-on-the-calling-thread", J{}.str("shape", name).unum("formatter_calls_during_log_call", fmt_during_call));
          g_failed = true;
        }
        if (has_direct && fmt_during_call == 0)
        {
          violation("C11", "direct-format-type-not-formatted-at-the-call-site", J{}.str("shape", name));
          g_failed = true;
        }
        g_logger->flush_log(0);
        if (!has_direct && !nested_direct && ut::g_fmt_calls.load() != fmt_before && ut::g_last_fmt_tid.load() != g_backend_tid)
        {
          violation("C11", "deferred-type-not-formatted-on-the-backend-thread", J{}.str("shape", name).unum("formatter_thread", ut::g_last_fmt_tid.load()).unum("backend_thread", g_backend_tid));
          g_failed = true;
        }
        if (alloc_free_class) g_stats.add("alloc_free_class_calls_checked");
      }
    }
    g_stats.sig("shapes", name);
  }
  static void run(char const* name, Rng& r, uint32_t reps) { run_impl(name, r, reps, std::index_sequence_for<Ts...>{}); }
};

struct Entry
{
  char const* name;
  void (*fn)(char const*, Rng&, uint32_t);
};
std::vector<Entry>& catalogue()
{
  static std::vector<Entry> c;
  return c;
}
int g_counter = 0;
#define SHAPE(...) catalogue().push_back(Entry{#__VA_ARGS__, &Shape<__VA_ARGS__>::run});

using str = std::string;
using sv = std::string_view;
using cstr = char const*;
template <typename T> using vec = std::vector<T>;
using ms = std::chrono::milliseconds;
using ns = std::chrono::nanoseconds;

void build_catalogue()
{
  // the compiler instantiates every Shape<> regardless of the part; the part only selects which ones RUN here, so the
  // parts are selected with the preprocessor below instead
}
} // namespace

#define P(n) (CODEC_PART == ((n) % CODEC_PARTS))

static void register_shapes()
{
#if P(0)
  SHAPE(int8_t) SHAPE(uint8_t) SHAPE(int16_t) SHAPE(uint16_t) SHAPE(int32_t) SHAPE(uint32_t) SHAPE(int64_t) SHAPE(uint64_t)
  SHAPE(bool) SHAPE(char) SHAPE(float) SHAPE(double) SHAPE(long double) SHAPE(ut::PlainEnum) SHAPE(ut::Scoped) SHAPE(void const*)
  SHAPE(str) SHAPE(sv) SHAPE(cstr) SHAPE(char[8]) SHAPE(char[1]) SHAPE(char[33])
  SHAPE(int32_t, double, str) SHAPE(str, str, str) SHAPE(cstr, cstr) SHAPE(sv, int64_t, sv, bool)
  SHAPE(ut::DefTrivial) SHAPE(ut::DefString) SHAPE(ut::DirectT)
  // deferred-format types of growing size (inline thresholds, cache lines, larger than a page)
  SHAPE(ut::DefSized<8>) SHAPE(ut::DefSized<64>) SHAPE(ut::DefSized<256>) SHAPE(ut::DefSized<264>) SHAPE(ut::DefSized<1024>) SHAPE(ut::DefSized<4104>)
  SHAPE(ut::DefSized<520>, str, ut::DefSized<16>)
  // an enum with a user-specialised (direct format) codec, alone and next to arithmetic / string arguments only
  SHAPE(ut::DirectEnum) SHAPE(ut::DirectEnum, int32_t) SHAPE(ut::DirectEnum, ut::DirectEnum, str) SHAPE(sv, ut::DirectEnum, double)
#endif
#if P(1)
  SHAPE(vec<int32_t>) SHAPE(vec<str>) SHAPE(vec<double>) SHAPE(vec<ut::Scoped>) SHAPE(std::deque<int64_t>) SHAPE(std::deque<str>)
  SHAPE(std::list<uint16_t>) SHAPE(std::list<str>) SHAPE(std::forward_list<int32_t>) SHAPE(std::forward_list<str>)
  SHAPE(std::array<int32_t, 4>) SHAPE(std::array<str, 3>) SHAPE(std::array<double, 1>)
  SHAPE(std::set<int32_t>) SHAPE(std::set<str>) SHAPE(std::multiset<int32_t>) SHAPE(std::unordered_set<int32_t>) SHAPE(std::unordered_set<str>)
  SHAPE(vec<int32_t>, str, vec<str>) SHAPE(str, vec<uint8_t>)
  // ordered containers with a non-default comparator: the text follows the container's own order
  SHAPE(std::set<int32_t, std::greater<int32_t>>) SHAPE(std::multiset<int64_t, std::greater<int64_t>>) SHAPE(std::map<int32_t, str, std::greater<int32_t>>)
  SHAPE(vec<std::set<int32_t, std::greater<int32_t>>>)
#endif
#if P(2)
  SHAPE(std::map<int32_t, str>) SHAPE(std::map<str, int32_t>) SHAPE(std::map<str, str>) SHAPE(std::multimap<int32_t, double>) SHAPE(std::unordered_map<int32_t, str>)
  SHAPE(std::unordered_map<str, uint64_t>) SHAPE(std::optional<int32_t>) SHAPE(std::optional<str>) SHAPE(std::optional<double>)
  SHAPE(std::pair<int32_t, str>) SHAPE(std::pair<str, str>) SHAPE(std::pair<double, bool>)
  SHAPE(std::tuple<int32_t, str, double>) SHAPE(std::tuple<str>) SHAPE(std::tuple<bool, char, uint64_t, str>)
  SHAPE(ms) SHAPE(ns) SHAPE(std::chrono::seconds) SHAPE(std::chrono::system_clock::time_point) SHAPE(std::filesystem::path)
  SHAPE(std::optional<str>, std::pair<int32_t, str>, ms)
  // composite arguments that contain a size-cached element (C string), followed by further size-cached arguments: the
  // running size-cache index has to be threaded through the composite codec
  SHAPE(std::optional<cstr>) SHAPE(std::optional<cstr>, cstr) SHAPE(std::optional<cstr>, std::optional<cstr>, cstr, char[9])
  SHAPE(std::pair<cstr, int32_t>, cstr) SHAPE(std::tuple<cstr, int32_t, cstr>, cstr, str) SHAPE(vec<cstr>, cstr) SHAPE(cstr, vec<cstr>, std::optional<cstr>, cstr)
  SHAPE(std::optional<ut::DirectT>, cstr) SHAPE(ut::DirectT, cstr, ut::DirectT, char[5])
#endif
#if P(3)
  SHAPE(vec<vec<int32_t>>) SHAPE(vec<vec<str>>) SHAPE(std::map<str, vec<int32_t>>) SHAPE(std::map<int32_t, vec<str>>) SHAPE(vec<std::pair<int32_t, str>>)
  SHAPE(std::optional<std::pair<str, int32_t>>) SHAPE(std::optional<vec<str>>) SHAPE(std::tuple<str, int32_t, vec<str>>) SHAPE(vec<std::optional<int32_t>>)
  SHAPE(std::pair<vec<int32_t>, std::map<int32_t, str>>) SHAPE(vec<std::tuple<int32_t, str>>) SHAPE(std::array<vec<int32_t>, 2>) SHAPE(std::list<std::pair<str, double>>)
  SHAPE(vec<ut::DefTrivial>) SHAPE(std::optional<ut::DefTrivial>)
  // more than the size cache's inline capacity (12) of variable-length arguments in one statement
  SHAPE(cstr, cstr, cstr, cstr, cstr, cstr, cstr, cstr, cstr, cstr, cstr, cstr)
  SHAPE(cstr, str, cstr, sv, cstr, str, cstr, sv, cstr, str, cstr, sv, cstr, str)
  SHAPE(char[5], cstr, char[9], cstr, char[2], cstr, char[16], cstr, char[3], cstr, char[7], cstr, char[4], cstr)
  // far beyond the size cache's inline capacity: the cache grows on the heap more than once within one statement
  SHAPE(cstr, cstr, cstr, cstr, cstr, cstr, cstr, cstr, cstr, cstr, cstr, cstr, cstr, cstr, cstr, cstr, cstr, cstr, cstr, cstr, cstr, cstr, cstr, cstr, cstr, cstr)
  SHAPE(cstr, char[5], cstr, char[9], cstr, char[5], cstr, char[9], cstr, char[5], cstr, char[9], cstr, char[5], cstr, char[9], cstr, char[5], cstr, char[9], cstr, char[5], cstr, char[9], cstr, char[5], cstr, char[9], cstr, char[5], cstr, char[9])
  SHAPE(int8_t, uint64_t, float, bool, char, int16_t, double, uint32_t, void const*, ut::PlainEnum)
  SHAPE(str, int32_t, vec<str>, std::optional<str>, std::map<str, str>, cstr, double)
#endif
}

// macro families (C11): representative statements through the library's own macros
static void macro_families(Rng& r)
{
  std::string s = rand_string(r, false);
  char const* c = "cstring";
  int i = static_cast<int>(r.next());
  double d = 1.5;
  std::vector<int> v{1, 2, 3};
  auto arm_check = [&](char const* what, auto&& fn)
  {
    tl_alloc().reset();
    uint64_t heap, maps;
    {
      ArmAlloc arm;
      fn();
      heap = tl_alloc().heap_allocs;
      maps = tl_alloc().mmaps;
    }
    if (heap || maps)
    {
      violation("C11", "log-call-allocated-on-the-calling-thread", J{}.str("shape", what).unum("heap_allocations", heap).unum("mmaps", maps));
      g_failed = true;
    }
    g_stats.add("alloc_free_class_calls_checked");
    g_logger->flush_log(0);
  };
  Lg* l = g_logger;
  for (int rep = 0; rep < 3; ++rep)
  {
    arm_check("LOG_INFO", [&] { LOG_INFO(l, "a {} {} {} {}", i, s, c, d); });
    arm_check("LOG_DEBUG", [&] { LOG_DEBUG(l, "a {} {}", i, s); });
    arm_check("LOGV_INFO", [&] { LOGV_INFO(l, "values", i, d, s); });
    arm_check("LOGJ_INFO", [&] { LOGJ_INFO(l, "values", i, d, s); });
    arm_check("LOG_INFO_TAGS", [&] { LOG_INFO_TAGS(l, TAGS("t1", "t2"), "a {} {}", i, s); });
    arm_check("LOG_INFO_LIMIT", [&] { LOG_INFO_LIMIT(std::chrono::nanoseconds{1}, l, "a {} {}", i, s); });
    arm_check("LOG_INFO_LIMIT_EVERY_N", [&] { LOG_INFO_LIMIT_EVERY_N(2, l, "a {} {}", i, s); });
    arm_check("LOG_DYNAMIC", [&] { LOG_DYNAMIC(l, quill::LogLevel::Warning, "a {} {} {}", i, s, v); });
    arm_check("LOG_BACKTRACE", [&] { LOG_BACKTRACE(l, "a {} {}", i, s); });
    arm_check("LOG_RUNTIME_METADATA", [&] { LOG_RUNTIME_METADATA(l, quill::LogLevel::Info, "file.cpp", 12, "func", "a {} {}", i, s); });
    // long strings everywhere (beyond any small-string buffer): literals, C strings, std::string, string_view, runtime
    // file / function names
    {
      static char const* const long_file = "/a/rather/long/path/into/a/foreign/library/source_file_name.cpp";
      static char const* const long_func = "a_function_name_reported_by_a_binding_layer_at_run_time";
      std::string const long_s(100 + r.below(400), 'L');
      std::string_view const long_sv{long_s};
      char const* const long_c = long_s.c_str();
      arm_check("LOG_RUNTIME_METADATA long names", [&] { LOG_RUNTIME_METADATA(l, quill::LogLevel::Info, long_file, 12345, long_func, "a {} {}", i, long_c); });
      arm_check("LOG_RUNTIME_METADATA string args", [&] { LOG_RUNTIME_METADATA(l, quill::LogLevel::Error, long_s, 7, long_sv, "b {}", long_s); });
      arm_check("LOG_INFO long strings", [&] { LOG_INFO(l, "a {} {} {} {}", long_s, long_sv, long_c, i); });
      arm_check("LOGV_DYNAMIC long strings", [&] { LOGV_DYNAMIC(l, quill::LogLevel::Info, "values", long_s, long_sv, d); });
      arm_check("LOGJ_DYNAMIC long strings", [&] { LOGJ_DYNAMIC(l, quill::LogLevel::Info, "values", long_s, i); });
      arm_check("LOG_WARNING_TAGS long strings", [&] { LOG_WARNING_TAGS(l, TAGS("tag_one", "tag_two"), "a {} {}", long_c, long_sv); });
      arm_check("LOG_BACKTRACE long strings", [&] { LOG_BACKTRACE(l, "a {} {}", long_s, long_c); });
      arm_check("named-args long strings", [&] { LOG_INFO(l, "a {first} {second:>8}", long_s, i); });
    }
    arm_check("named-args", [&] { LOG_INFO(l, "a {first} {second}", i, s); });
  }
}


// "A statement whose encoded size fits in the thread's current queue buffer performs no allocation": whether a
// statement fits cannot depend on how fresh the producer's cached view of the consumer position is. For string
// lengths around the capacity, one new thread per probe: (A) first statement after preallocate() - the reservation is
// decided on the cached position; (B) a small statement, flush_log() (queue drained, position published), then the
// probe - the reservation is decided after the producer re-reads the position. Both see an EMPTY queue of the same
// capacity, so the largest length that is accepted without growing the queue must be the same.
static void exact_fit_probe()
{
  struct Res { uint64_t allocs{0}; size_t cap_before{0}, cap_after{0}; };
  auto probe = [](size_t L, bool stale) -> Res
  {
    Res res;
    std::thread([&]
                {
                  Fe::preallocate();
                  res.cap_before = Fe::get_thread_local_queue_capacity();
                  if (stale)
                  {
                    LOG_INFO(g_logger, "small {}", 1);
                    g_logger->flush_log(0);
                  }
                  std::string const big(L, 'x');
                  std::string_view const sv{big};
                  tl_alloc().reset();
                  {
                    ArmAlloc arm;
                    LOG_INFO(g_logger, "{}", sv);
                    res.allocs = tl_alloc().heap_allocs + tl_alloc().mmaps;
                  }
                  res.cap_after = Fe::get_thread_local_queue_capacity();
                  g_logger->flush_log(0);
                })
      .join();
    return res;
  };
  size_t const cap = probe(8, false).cap_before;
  long last_fit_a = -1, last_fit_b = -1;
  uint64_t probes = 0;
  for (size_t L = cap - 120; L <= cap && !g_failed; ++L)
  {
    Res const a = probe(L, false), b = probe(L, true);
    probes += 2;
    if (!a.allocs) last_fit_a = static_cast<long>(L);
    if (!b.allocs) last_fit_b = static_cast<long>(L);
    if ((a.allocs == 0) != (b.allocs == 0))
    {
      violation("C11", "log-call-allocated-on-the-calling-thread",
                J{}.str("shape", "string_view of a length around the queue capacity, empty queue").unum("string_length", L).unum("queue_capacity", cap)
                  .unum("allocations_first_statement_of_the_thread", a.allocs).unum("allocations_after_a_small_statement_and_flush", b.allocs)
                  .unum("capacity_after_first", a.cap_after).unum("capacity_after_second", b.cap_after)
                  .str("what", "the same statement on the same empty queue grows the queue in one case and fits in the other"));
      g_failed = true;
    }
    g_stats.add("alloc_free_class_calls_checked", 2);
  }
  g_stats.add("exact_fit_probes", static_cast<long long>(probes));
  if (last_fit_a >= 0 && last_fit_a < static_cast<long>(cap)) g_stats.add("exact_fit_thresholds_located_inside_the_sweep");
  (void)last_fit_b;
}

int main(int argc, char** argv)
{
  Args a{argc, argv};
  std::string const mode = a.s("mode", "fmt");
  uint64_t const seed = a.u("seed", 1);
  uint32_t const reps = static_cast<uint32_t>(a.u("reps", 200));
  g_mode = mode == "fmt" ? Mode::Fmt : mode == "codec" ? Mode::Codec : Mode::Alloc;
  g_accept_all = a.u("accept_all", 0) != 0;
  g_printable_only = a.u("printable_only", 0) != 0;
  Rng r{mix(seed, 0x04 + CODEC_PART)};
  register_shapes();
  quill::BackendOptions bo;
  bo.check_backend_singleton_instance = false;
  bo.error_notifier = [](std::string const& s) { recorder().note(s); };
  if (g_accept_all) bo.check_printable_char = [](char) { return true; };
  g_sink = std::static_pointer_cast<RecSink>(Fe::create_or_get_sink<RecSink>("rec", 1u));
  g_logger = Fe::create_or_get_logger("lg", g_sink, quill::PatternFormatterOptions{"%(message)"}, quill::ClockSourceType::System);
  g_logger->set_log_level(quill::LogLevel::TraceL3);
  if (g_mode == Mode::Fmt)
  {
    g_manual = quill::Backend::acquire_manual_backend_worker();
    g_manual->init(bo);
  }
  else if (g_mode == Mode::Alloc)
  {
    quill::Backend::start(bo);
    g_backend_tid = quill::Backend::get_thread_id();
    g_logger->init_backtrace(8);
    Fe::preallocate();
    LOG_INFO(g_logger, "warm up {}", 1);
    g_logger->flush_log(0);
  }
  for (auto const& e : catalogue())
  {
    if (g_failed) break;
    e.fn(e.name, r, reps);
  }
  if (g_mode == Mode::Alloc && !g_failed && CODEC_PART == 0) macro_families(r);
  if (g_mode == Mode::Alloc && !g_failed && CODEC_PART == 0 && VF_CAN_INTERPOSE) exact_fit_probe();
  if (g_mode == Mode::Fmt && !g_failed && CODEC_PART == 0)
  {
    // the macro family that passes file / line / function at run time formats its message through a separate path
    // (message and metadata travel in one buffer and are cut apart on the backend): same text, same sanitisation
    for (uint32_t rep = 0; rep < reps * 4 && !g_failed; ++rep)
    {
      std::string const sarg = rand_string(r, false);
      std::string const s2 = r.chance(1, 2) ? rand_string(r, false) : std::string{};
      int const i = static_cast<int>(r.next());
      std::string expected = fmtquill::format("rt [{}] code {} [{}]", sarg, i, s2);
      if (!g_accept_all) expected = my_escape(expected);
      recorder().clear();
      LOG_RUNTIME_METADATA(g_logger, quill::LogLevel::Info, "some_file.cpp", 321, "some_function", "rt [{}] code {} [{}]", sarg, i, s2);
      g_manual->poll();
      std::vector<std::string> msgs;
      for (auto const& e : recorder().snapshot()) if (e.kind == 'w') msgs.push_back(e.msg);
      ++g_cases;
      if (msgs.size() != 1 || msgs[0] != expected)
      {
        violation("C04", "async-message-differs-from-call-site-formatting", J{}.str("shape", "LOG_RUNTIME_METADATA(str, int, str)").str("got", msgs.empty() ? "<nothing>" : msgs[0].substr(0, 300)).str("want", expected.substr(0, 300)).unum("messages", msgs.size()).boolean("accept_all_chars", g_accept_all));
        g_failed = true;
      }
    }
    g_stats.sig("shapes", "LOG_RUNTIME_METADATA(str, int, str)");
    // statements without arguments: the format string is still a format string (escaped braces)
    auto zero_arg = [&](char const* shape, std::string expected, auto&& log_it)
    {
      if (g_failed) return;
      if (!g_accept_all) expected = my_escape(expected);
      recorder().clear();
      log_it();
      g_manual->poll();
      std::vector<std::string> msgs;
      for (auto const& e : recorder().snapshot()) if (e.kind == 'w') msgs.push_back(e.msg);
      ++g_cases;
      if (msgs.size() != 1 || msgs[0] != expected)
      {
        violation("C04", "async-message-differs-from-call-site-formatting", J{}.str("shape", shape).str("got", msgs.empty() ? "<nothing>" : msgs[0].substr(0, 300)).str("want", expected.substr(0, 300)).unum("messages", msgs.size()).boolean("accept_all_chars", g_accept_all));
        g_failed = true;
      }
      g_stats.sig("shapes", shape);
    };
    for (int rep = 0; rep < 3; ++rep)
    {
      zero_arg("no arguments: plain text", fmtquill::format("plain text without arguments"), [&] { LOG_INFO(g_logger, "plain text without arguments"); });
      zero_arg("no arguments: escaped braces", fmtquill::format("body {{\"id\": 7}} }} {{ {{}}"), [&] { LOG_INFO(g_logger, "body {{\"id\": 7}} }} {{ {{}}"); });
      zero_arg("no arguments: only escaped braces", fmtquill::format("{{}}"), [&] { LOG_INFO(g_logger, "{{}}"); });
      zero_arg("no arguments: dynamic level, escaped braces", fmtquill::format("dyn {{x}}"), [&] { LOG_DYNAMIC(g_logger, quill::LogLevel::Warning, "dyn {{x}}"); });
    }
  }
  if (g_mode == Mode::Alloc) quill::Backend::stop();
  if (g_mode == Mode::Alloc && !g_failed && CODEC_PART == 0)
  {
    // statements still queued when the backend is stopped (it sleeps between polls and is not notified): their deferred
    // formatters run during the final drain - on the backend thread, never on the thread that calls stop()
    for (int round = 0; round < 3 && !g_failed; ++round)
    {
      quill::BackendOptions b2 = bo;
      b2.sleep_duration = std::chrono::seconds{2};
      quill::Backend::start(b2);
      std::this_thread::sleep_for(std::chrono::milliseconds(150)); // let it reach its idle sleep
      uint32_t const caller = static_cast<uint32_t>(syscall(SYS_gettid));
      ut::g_watched_tid.store(caller);
      uint64_t const before = ut::g_fmt_calls.load(), on_caller_before = ut::g_fmt_calls_on_watched_tid.load();
      for (int i = 0; i < 8; ++i)
      {
        ut::DefTrivial d{};
        d.a = i;
        d.b = 0.5 * i;
        LOG_INFO(g_logger, "at stop {} {}", d, ut::DefSized<264>{});
      }
      quill::Backend::stop();
      uint64_t const total = ut::g_fmt_calls.load() - before, on_caller = ut::g_fmt_calls_on_watched_tid.load() - on_caller_before;
      ut::g_watched_tid.store(0);
      if (on_caller)
      {
        violation("C11", "deferred-type-formatted-on-the-thread-that-called-stop", J{}.unum("formatter_calls_on_the_calling_thread", on_caller).unum("formatter_calls", total).num("round", round));
        g_failed = true;
      }
      g_stats.add("stop_with_backlog_rounds");
      g_stats.add("formatter_calls_during_final_drain", static_cast<long long>(total));
    }
  }
  g_stats.add("shapes_run", static_cast<long long>(catalogue().size()));
  g_stats.add(mode + "_cases", static_cast<long long>(g_cases));
  g_stats.add("interposed", VF_CAN_INTERPOSE);
  g_stats.flush();
  sample(J{}.str("harness", "codec_rt").str("mode", mode).unum("part", CODEC_PART).str("first_shape", catalogue().empty() ? "" : catalogue()[0].name).unum("reps", reps));
  end_ok();
  return 0;
}
