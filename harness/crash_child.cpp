// C07 child (mode X): runs a scripted logging program and stops / exits / returns / dies by a handled signal at a
// chosen statement boundary. The parent judges from outside: wait status + destination files + progress side files.
#include "quill/Backend.h"
#include "quill/Frontend.h"
#include "quill/LogMacros.h"
#include "quill/Logger.h"
#include "quill/sinks/FileSink.h"

#include <atomic>
#include <condition_variable>
#include <csignal>
#include <cstdio>
#include <cstring>
#include <fcntl.h>
#include <map>
#include <mutex>
#include <stdexcept>
#include <string>
#include <thread>
#include <unistd.h>
#include <vector>

namespace
{
std::atomic<uint64_t> g_ticket{1};
std::string g_dir;

struct Progress
{
  int fd{-1};
  explicit Progress(std::string const& name) { fd = ::open((g_dir + "/prog_" + name).c_str(), O_WRONLY | O_CREAT | O_APPEND, 0644); }
  void rec(char const* what, long i)
  {
    char b[64];
    int n = snprintf(b, sizeof b, "%llu %s %ld\n", static_cast<unsigned long long>(g_ticket.fetch_add(1)), what, i);
    if (::write(fd, b, static_cast<size_t>(n)) != n) _exit(97);
  }
};

class SlowFileSink : public quill::Sink
{
public:
  explicit SlowFileSink(std::string const& path, uint32_t us) : _us(us) { _f = fopen(path.c_str(), "w"); }
  ~SlowFileSink() override
  {
    if (_f) fclose(_f);
  }
  void write_log(quill::MacroMetadata const*, uint64_t, std::string_view, std::string_view, std::string const&, std::string_view, quill::LogLevel,
                 std::string_view, std::string_view, std::vector<std::pair<std::string, std::string>> const*, std::string_view, std::string_view stmt) override
  {
    usleep(_us);
    fwrite(stmt.data(), 1, stmt.size(), _f);
  }
  void flush_sink() override { fflush(_f); }

private:
  FILE* _f{nullptr};
  uint32_t _us;
};

// a sink (think of a network or database sink whose peer went away) that throws from every flush
class BadFlushSink : public quill::Sink
{
public:
  void write_log(quill::MacroMetadata const*, uint64_t, std::string_view, std::string_view, std::string const&, std::string_view, quill::LogLevel,
                 std::string_view, std::string_view, std::vector<std::pair<std::string, std::string>> const*, std::string_view, std::string_view) override
  {
  }
  void flush_sink() override { throw std::runtime_error{"scripted flush failure"}; }
};

std::map<std::string, std::string> parse(int argc, char** argv)
{
  std::map<std::string, std::string> m;
  for (int i = 1; i + 1 < argc; i += 2) m[argv[i] + 2] = argv[i + 1];
  return m;
}

quill::Logger* make_file_logger(std::string const& name, std::string const& file, quill::ClockSourceType clk)
{
  quill::FileSinkConfig fc;
  fc.set_open_mode('a');
  auto sink = quill::Frontend::create_or_get_sink<quill::FileSink>(file, fc);
  return quill::Frontend::create_or_get_logger(name, sink, quill::PatternFormatterOptions{"%(message)"}, clk);
}
} // namespace

int main(int argc, char** argv)
{
  auto a = parse(argc, argv);
  g_dir = a["dir"];
  std::string const action = a["action"];
  long const N = atol(a["n"].c_str());
  long const K = atol(a["k"].c_str());
  int const sig = atoi(a["sig"].c_str());
  int const others = atoi(a["others"].c_str());
  std::string const ostate = a["ostate"]; // finished | alive | parked
  bool const busy = a["load"] == "busy";
  bool const tsc = a["clock"] == "tsc";
  int const cycles = atoi(a["cycles"].c_str());
  bool const victim_is_main = a["victim"] != "thread";
  bool const big = a["big"] == "1";
  std::string const bigpayload(big ? 200000 : 0, 'x');
  quill::ClockSourceType const clk = tsc ? quill::ClockSourceType::Tsc : quill::ClockSourceType::System;

  quill::BackendOptions bo;
  bo.check_backend_singleton_instance = false;
  bo.error_notifier = [](std::string const&) {};
  // --grace_us: timestamp ordering grace period (statements younger than this stay in their queue for a while: a stop
  // right after logging finds them there); --wait_empty 0: wait_for_queues_to_empty_before_exit off (only combined with
  // signals, whose clause does not depend on it); --settle_ms: pause before the action, so that the backend has consumed
  // everything and is idle when it is stopped (within the sinks' minimum flush interval)
  if (int g = atoi(a["grace_us"].c_str()); g > 0) bo.log_timestamp_ordering_grace_period = std::chrono::microseconds{g};
  if (a["wait_empty"] == "0") bo.wait_for_queues_to_empty_before_exit = false;
  int const settle_ms = atoi(a["settle_ms"].c_str());
  // copy of the victim's file taken the moment Backend::stop() returned ("written and flushed before the backend thread
  // terminates" - not merely by the time the sinks are destroyed at process exit)
  auto snapshot_at_stop = [&](long idx)
  {
    std::string const src = g_dir + "/victim.log", dst = g_dir + "/victim.at_stop." + std::to_string(idx);
    int in = ::open(src.c_str(), O_RDONLY), out = ::open(dst.c_str(), O_WRONLY | O_CREAT | O_TRUNC, 0644);
    if (in >= 0 && out >= 0)
    {
      char buf[65536];
      ssize_t n;
      while ((n = ::read(in, buf, sizeof buf)) > 0)
        if (::write(out, buf, static_cast<size_t>(n)) != n) _exit(97);
    }
    if (in >= 0) ::close(in);
    if (out >= 0) ::close(out);
  };
  auto start_backend = [&]
  {
    if (action == "signal")
    {
      quill::SignalHandlerOptions so;
      so.timeout_seconds = 3;
      so.logger = "victim";
      quill::Backend::start<quill::FrontendOptions>(bo, so);
    }
    else
      quill::Backend::start(bo);
  };
  start_backend();
  quill::Logger* vlog = make_file_logger("victim", g_dir + "/victim.log", clk);

  // --badflush: a logger that sorts before every other one, over a sink whose flush always throws
  if (a["badflush"] == "1")
  {
    auto bs = quill::Frontend::create_or_get_sink<BadFlushSink>("badflush_sink");
    quill::Logger* bl = quill::Frontend::create_or_get_logger("a_badflush", bs, quill::PatternFormatterOptions{"%(message)"}, clk);
    LOG_INFO(bl, "B|0");
  }

  // backend load: a backlog on a slow sink
  quill::Logger* slow = nullptr;
  if (busy)
  {
    auto ss = quill::Frontend::create_or_get_sink<SlowFileSink>("slow_sink", g_dir + "/slow.log", 300u);
    slow = quill::Frontend::create_or_get_logger("slow", ss, quill::PatternFormatterOptions{"%(message)"}, clk);
  }

  // --prealloc: the victim (main thread) registers its thread context before any other thread does
  if (a["prealloc"] == "1") quill::Frontend::preallocate();
  // --second_fault_ms N: another thread that has logged receives the same signal N ms after the victim raised it
  int const second_fault_ms = atoi(a["second_fault_ms"].c_str());
  std::atomic<bool> victim_raising{false};
  std::thread second_faulter;
  if (action == "signal" && second_fault_ms > 0)
  {
    second_faulter = std::thread([&]
                                 {
                                   quill::Logger* lg = make_file_logger("faulter2", g_dir + "/faulter2.log", clk);
                                   LOG_INFO(lg, "F2|0");
                                   while (!victim_raising.load()) usleep(200);
                                   usleep(static_cast<useconds_t>(second_fault_ms) * 1000);
                                   raise(sig);
                                   pause();
                                 });
    usleep(2000);
  }

  std::mutex mu;
  std::condition_variable cv;
  bool release_parked = false;
  std::atomic<bool> stop_alive{false};
  std::atomic<int> ready{0};
  std::vector<std::thread> ths;
  for (int t = 0; t < others; ++t)
  {
    ths.emplace_back([&, t]
                     {
                       Progress pr{"other" + std::to_string(t)};
                       quill::Logger* lg = make_file_logger("other" + std::to_string(t), g_dir + "/other" + std::to_string(t) + ".log", clk);
                       long i = 0;
                       for (; i < 5 + t * 3; ++i)
                       {
                         LOG_INFO(lg, "O{}|{}", t, i);
                         pr.rec("ret", i);
                       }
                       ready.fetch_add(1);
                       if (ostate == "parked")
                       {
                         std::unique_lock<std::mutex> lk{mu};
                         cv.wait(lk, [&] { return release_parked; });
                       }
                       else if (ostate == "alive")
                       {
                         while (!stop_alive.load())
                         {
                           LOG_INFO(lg, "O{}|{}", t, i);
                           pr.rec("ret", i);
                           ++i;
                           usleep(200);
                         }
                       }
                     });
  }
  while (ready.load() < others) usleep(100);
  if (ostate == "finished")
  {
    for (auto& t : ths) t.join();
    ths.clear();
  }

  int rc = 0;
  auto victim = [&]
  {
    Progress pr{"victim"};
    if (slow)
    {
      for (int i = 0; i < 150; ++i)
      {
        LOG_INFO(slow, "S|{}", i);
        pr.rec("slowret", i);
      }
    }
    // --flusher: while the backlog keeps the backend busy, thread F calls flush_log() (its request waits behind the
    // backlog), then thread W logs through its own logger and exits at once, then F's flush returns. W is one more
    // "other thread that already exited": what it logged must survive the action like everything else.
    if (a["flusher"] == "1")
    {
      std::thread f([&] { vlog->flush_log(); });
      usleep(2000); // F's request is queued (and older than what W logs next)
      int const t = others;
      std::thread w([&, t]
                    {
                      Progress pw{"other" + std::to_string(t)};
                      quill::Logger* lg = make_file_logger("other" + std::to_string(t), g_dir + "/other" + std::to_string(t) + ".log", clk);
                      for (long j = 0; j < 6; ++j)
                      {
                        LOG_INFO(lg, "O{}|{}", t, j);
                        pw.rec("ret", j);
                      }
                    });
      w.join();
      f.join();
    }
    long i = 0;
    auto log_until = [&](long end)
    {
      for (; i < end; ++i)
      {
        // --big: the last statement before the action is larger than the thread's current queue buffer (128 KiB), so it
        // goes into a freshly allocated buffer while the old one is (possibly) already drained
        if (big && i == K - 1) LOG_INFO(vlog, "V|{}|{}", i, bigpayload);
        else LOG_INFO(vlog, "V|{}", i);
        pr.rec("ret", i);
        if (big && i == K - 2) usleep(3000); // let the backend drain the old buffer first
      }
    };
    log_until(K);
    if (settle_ms > 0) usleep(static_cast<useconds_t>(settle_ms) * 1000);
    pr.rec("action", K);
    if (action == "stop")
    {
      quill::Backend::stop();
      snapshot_at_stop(0);
      pr.rec("stopped", K);
    }
    else if (action == "exit")
    {
      std::exit(0);
    }
    else if (action == "return")
    {
      rc = 0;
      return; // main returns below (only when the victim is the main thread)
    }
    else if (action == "cycles")
    {
      long per = (N - K) / (cycles > 0 ? cycles : 1);
      for (int c = 0; c < cycles; ++c)
      {
        quill::Backend::stop();
        if (c == 0) snapshot_at_stop(0);
        pr.rec("stopped", c);
        start_backend();
        log_until(c + 1 == cycles ? N : i + per);
      }
      quill::Backend::stop();
      pr.rec("stopped", cycles);
    }
    else if (action == "signal")
    {
      victim_raising.store(true);
      raise(sig);
      // SIGINT/SIGTERM: the handler calls std::exit; fatal ones never return here
      pr.rec("after-raise", K);
    }
  };

  if (victim_is_main) victim();
  else
  {
    std::thread vt(victim);
    vt.join();
  }
  if (action == "return" && victim_is_main)
  {
    // other threads must not be running when main returns (that would be the application's bug)
    stop_alive.store(true);
    {
      std::lock_guard<std::mutex> lk{mu};
      release_parked = true;
    }
    cv.notify_all();
    for (auto& t : ths) t.join();
    return 0;
  }
  stop_alive.store(true);
  {
    std::lock_guard<std::mutex> lk{mu};
    release_parked = true;
  }
  cv.notify_all();
  for (auto& t : ths) t.join();
  return rc;
}
