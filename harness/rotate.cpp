// C14 / C15: quill::RotatingFileSink driven directly (mode D) in a scratch directory, judged from the directory
// listing and file contents after every "process restart" (sink destroyed and re-created over the same directory).
#include "common/util.h"
#include "quill/sinks/RotatingFileSink.h"

#include <algorithm>
#include <ctime>
#include <dirent.h>
#include <fstream>
#include <map>
#include <set>
#include <sstream>
#include <sys/stat.h>

using namespace vf;
namespace fs = std::filesystem;
using Cfg = quill::RotatingFileSinkConfig;

namespace
{
Stats g_stats;

struct Stmt
{
  uint64_t id;
  uint64_t ts; // ns
  uint32_t size;
  uint32_t instance;
  std::string text() const
  {
    char b[32];
    int n = snprintf(b, sizeof b, "#%08llu|", static_cast<unsigned long long>(id));
    std::string s(b, n);
    while (s.size() + 1 < size) s += static_cast<char>('a' + (id + s.size()) % 26);
    s += '\n';
    return s;
  }
};

struct Case
{
  // configuration
  uint64_t limit{0}; // 0 = size rotation off
  uint32_t backups{0};
  bool unlimited{false};
  bool overwrite{true};
  int naming{0}; // 0 index 1 date 2 datetime
  char later_mode{'a'};
  bool remove_old{true};
  bool gmt{true};
  char freq{0}; // 0 none, 'M','H','D'
  uint32_t interval{0};
  std::string daily;
  uint32_t restarts{0};
  uint64_t seed{0};
  std::string describe() const
  {
    return J{}
      .unum("limit", limit)
      .num("backups", unlimited ? -1 : static_cast<long long>(backups))
      .boolean("overwrite", overwrite)
      .str("naming", naming == 0 ? "Index" : naming == 1 ? "Date" : "DateAndTime")
      .str("later_open_mode", std::string(1, later_mode))
      .boolean("remove_old_files", remove_old)
      .boolean("gmt", gmt)
      .str("freq", freq ? std::string(1, freq) : "")
      .unum("interval", interval)
      .str("daily", daily)
      .unum("restarts", restarts)
      .unum("seed", seed)
      .done();
  }
};

std::string fmt_time(uint64_t ts_ns, bool gmt, char const* f)
{
  time_t t = static_cast<time_t>(ts_ns / 1000000000ull);
  tm tmv{};
  if (gmt) gmtime_r(&t, &tmv); else localtime_r(&t, &tmv);
  char b[64];
  strftime(b, sizeof b, f, &tmv);
  return b;
}

struct FileView
{
  std::string name;
  std::string suffix; // date or datetime part ("" for index scheme / current file)
  uint32_t index{0};
  bool current{false};
  uint64_t bytes{0};
  std::vector<uint64_t> ids;
};

struct Runner
{
  Case c;
  Rng r;
  std::string dir;
  std::vector<Stmt> written;
  std::vector<uint64_t> instance_start_ts;
  std::vector<size_t> instance_first_stmt; // index into written
  std::vector<char> instance_mode;
  uint64_t opens_total{0};
  std::vector<uint64_t> rotations_per_instance;
  std::map<std::string, std::string> planted;
  bool failed{false};
  char const* prop;
  bool in_fail_c15{false};
  bool no_current_expected{false};
  uint64_t crashes_mid_rotation{0};
  uint64_t cur_size_model{0};
  // evidence
  uint64_t rotations{0}, deletions_seen{0};
  // an operator (or a clean-up job) removes the OLDEST retained backup while the sink is running - something the file
  // sinks explicitly cope with. The statements in it are gone by the operator's hand (still the oldest ones, so the
  // "only a prefix is missing" rule is unaffected); the backup count must stay bounded afterwards.
  bool operator_removed_a_backup{false};
  // known-defect observability: rotated files an append-mode restart inherits but (by reading the recovery rule
  // off the directory, not off the sink) cannot have recovered: all of them with DateAndTime naming, those with a
  // date other than the start day with Date naming
  uint64_t unrecovered_inherited{0};
  bool lost_in_reproduced_name{false};
  std::map<uint64_t, std::string> last_seen_file; // statement id -> file it was in at the previous check

  Runner(Case const& cc, std::string d, char const* p) : c(cc), r(mix(cc.seed, 0x14)), dir(std::move(d)), prop(p) {}

  void fail(std::string const& key, J w)
  {
    if (failed) return;
    failed = true;
    w.raw("cfg", c.describe());
    std::string listing;
    for (auto const& e : fs::directory_iterator(dir)) listing += e.path().filename().string() + "(" + std::to_string(fs::file_size(e.path())) + ") ";
    w.str("dir", listing.substr(0, 1500));
    std::string inst;
    for (size_t i = 0; i < instance_start_ts.size(); ++i)
      inst += std::string(1, instance_mode[i]) + "@" + std::to_string(instance_start_ts[i] / 1000000000ull) + "/first#" + std::to_string(instance_first_stmt[i] < written.size() ? written[instance_first_stmt[i]].id : 0) + " ";
    w.str("instances", inst);
    w.unum("restarts_done", instance_start_ts.size() ? instance_start_ts.size() - 1 : 0);
    w.unum("unrecovered_inherited_files", unrecovered_inherited);
    w.boolean("lost_in_reproduced_name", lost_in_reproduced_name);
    violation(prop, key, w);
    // the size / count / whole-statement oracles are C14's: under the time-rotation workload (run for C15, and by
    // the C14 check as well) their violations are reported for both properties
    if (std::string{prop} == "C15" && !in_fail_c15) violation("C14", key, w);
  }

  Cfg make_cfg(char mode)
  {
    Cfg cfg;
    cfg.set_open_mode(mode);
    cfg.set_timezone(c.gmt ? quill::Timezone::GmtTime : quill::Timezone::LocalTime);
    if (c.limit) cfg.set_rotation_max_file_size(c.limit);
    if (!c.unlimited) cfg.set_max_backup_files(c.backups);
    cfg.set_overwrite_rolled_files(c.overwrite);
    cfg.set_remove_old_files(c.remove_old);
    cfg.set_rotation_naming_scheme(c.naming == 0 ? Cfg::RotationNamingScheme::Index
                                     : c.naming == 1 ? Cfg::RotationNamingScheme::Date
                                                     : Cfg::RotationNamingScheme::DateAndTime);
    if (c.freq == 'M' || c.freq == 'H') cfg.set_rotation_frequency_and_interval(c.freq, c.interval);
    else if (c.freq == 'D') cfg.set_rotation_time_daily(c.daily);
    return cfg;
  }

  // ---------------------------------------------------------------- reference schedule (C15)
  // points strictly after `start`: first = next full minute/hour or next HH:MM, then + interval (24h for daily)
  uint64_t first_point(uint64_t start_ns) const
  {
    time_t t = static_cast<time_t>(start_ns / 1000000000ull);
    tm d{};
    if (c.gmt) gmtime_r(&t, &d); else localtime_r(&t, &d);
    if (c.freq == 'M' || c.freq == 'H')
    {
      // next full minute / hour of the wall clock as it reads at the start instant (offset in force at that instant)
      long const off = c.gmt ? 0 : d.tm_gmtoff;
      long const unit = c.freq == 'M' ? 60 : 3600;
      long long const loc = static_cast<long long>(t) + off;
      long long const nxt = (loc / unit + 1) * unit - off;
      return static_cast<uint64_t>(nxt) * 1000000000ull;
    }
    else { d.tm_hour = atoi(c.daily.substr(0, 2).c_str()); d.tm_min = atoi(c.daily.substr(3, 2).c_str()); d.tm_sec = 0; }
    d.tm_isdst = -1;
    time_t p = c.gmt ? timegm(&d) : mktime(&d);
    if (p <= t)
    {
      if (c.freq != 'D') p += 86400;
      else
      {
        // the same HH:MM on the next calendar day (not +86400 s: the start day may be 23 or 25 hours long)
        d.tm_mday += 1; // (mktime normalised d: a nonexistent HH:MM on the start day was moved, so set it again)
        d.tm_hour = atoi(c.daily.substr(0, 2).c_str());
        d.tm_min = atoi(c.daily.substr(3, 2).c_str());
        d.tm_sec = 0;
        d.tm_isdst = -1;
        p = c.gmt ? timegm(&d) : mktime(&d);
      }
    }
    return static_cast<uint64_t>(p) * 1000000000ull;
  }
  uint64_t period_ns() const
  {
    return c.freq == 'M' ? 60ull * c.interval * 1000000000ull : c.freq == 'H' ? 3600ull * c.interval * 1000000000ull : 86400ull * 1000000000ull;
  }
  // number of scheduled points <= ts for an instance that started at start_ns
  uint64_t period_index(uint64_t start_ns, uint64_t ts) const
  {
    uint64_t p0 = first_point(start_ns);
    if (ts < p0) return 0;
    return 1 + (ts - p0) / period_ns();
  }

  // ---------------------------------------------------------------- one sink instance
  void run_instance(uint32_t inst, uint64_t& clock_ns, uint64_t& next_id, uint32_t nstmts)
  {
    char mode = inst == 0 ? (r.chance(1, 2) ? 'w' : 'a') : c.later_mode;
    instance_mode.push_back(mode);
    instance_start_ts.push_back(clock_ns);
    instance_first_stmt.push_back(written.size());
    if (inst > 0 && mode == 'a' && c.naming != 0)
    {
      std::string const today = fmt_time(clock_ns, c.gmt, "%Y%m%d");
      for (auto const& e : fs::directory_iterator(dir))
      {
        FileView fv;
        std::string fn = e.path().filename().string();
        if (planted.count(fn) || !parse_name(fn, fv) || fv.current) continue;
        if (c.naming == 2 || fv.suffix != today) ++unrecovered_inherited;
      }
    }
    uint64_t opens = 0;
    quill::FileEventNotifier fen;
    fen.after_open = [&opens](fs::path const&, FILE*) { ++opens; };
    // simulated process death in the middle of a rotation: the re-open of the active file (after the rename chain)
    // never happens - before_open throws, the instance ends there, and the next one starts in append mode over a
    // directory that holds the backups but no active file. Only with Index naming, no backup limit, append restarts.
    struct CrashNow {};
    uint64_t before_opens = 0;
    uint64_t const crash_at_open = (c.freq == 0 && c.naming == 0 && c.unlimited && c.later_mode == 'a' && inst < c.restarts && r.chance(1, 6)) ? r.range(2, 5) : 0;
    fen.before_open = [&before_opens, crash_at_open](fs::path const&)
    {
      if (++before_opens == crash_at_open) throw CrashNow{};
    };
    bool crashed = false;
    bool const operator_may_remove = c.freq == 0 && c.naming == 0 && c.restarts == 0 && !c.unlimited && c.overwrite && c.backups >= 2 && r.chance(1, 3);
    std::string const base = dir + "/base.log";
    std::unique_ptr<quill::RotatingFileSink> sink;
    try
    {
      sink = std::make_unique<quill::RotatingFileSink>(
        base, make_cfg(mode), fen, std::chrono::system_clock::time_point{std::chrono::duration_cast<std::chrono::system_clock::duration>(std::chrono::nanoseconds{clock_ns})});
    }
    catch (std::exception const& e)
    {
      fail("sink-construction-threw", J{}.str("what", e.what()));
      return;
    }
    struct stat st{};
    cur_size_model = (stat(base.c_str(), &st) == 0) ? static_cast<uint64_t>(st.st_size) : 0;
    std::string const pid = "1";
    uint64_t seen_opens = opens;
    for (uint32_t k = 0; k < nstmts && !failed; ++k)
    {
      // ---- timestamp: non-decreasing
      if (c.freq)
      {
        uint64_t const P = period_ns();
        uint64_t x = r.below(20);
        uint64_t p0 = first_point(instance_start_ts.back());
        uint64_t nextp = clock_ns < p0 ? p0 : p0 + ((clock_ns - p0) / P + 1) * P;
        if (x < 8) clock_ns += r.below(P / 6 + 1);                 // dense
        else if (x < 11) clock_ns = nextp;                          // exactly on the next boundary
        else if (x < 13) clock_ns = nextp - 1;                      // one ns before
        else if (x < 15) clock_ns = nextp + 1;                      // one ns after
        else if (x < 17) clock_ns = nextp + r.below(P);             // late in the following period
        else if (x < 18) clock_ns += P * r.range(2, 30) + r.below(P); // gap of many periods
        else if (x < 19) clock_ns = nextp + P * r.range(1, 6) - (r.chance(1, 4) ? 1 : 0); // silent periods, then exactly on (or 1 ns before) a later point
        else clock_ns += r.below(3);
      }
      else
      {
        uint64_t x = r.below(10);
        if (x < 4) clock_ns += 0;                                   // identical instant (date-time suffixes collide)
        else if (x < 7) clock_ns += r.below(1500000000ull);         // within ~a second
        else if (x < 9) clock_ns += r.below(3600ull * 1000000000ull);
        else clock_ns += r.below(3ull * 86400ull * 1000000000ull); // crossing days
      }
      // ---- size
      uint64_t const L = c.limit ? c.limit : 2048;
      uint64_t sz;
      uint64_t y = r.below(12);
      if (y < 5) sz = r.range(12, 100);
      else if (y < 8) sz = r.range(L / 4, L / 2);
      else if (y == 8) sz = cur_size_model < L && L - cur_size_model >= 12 ? L - cur_size_model : 12; // exact fit
      else if (y == 9) sz = cur_size_model < L && L - cur_size_model + 1 >= 12 ? L - cur_size_model + 1 : 13; // one too many
      else if (y == 10) sz = L - r.below(2);
      else sz = r.chance(1, 3) ? L * 3 : L + 1;
      if (sz < 12) sz = 12;
      Stmt s{next_id++, clock_ns, static_cast<uint32_t>(sz), inst};
      std::string const line = s.text();
      try
      {
        sink->write_log(nullptr, s.ts, "1", "t", pid, "lg", quill::LogLevel::Info, "INFO", "I", nullptr, line, line);
      }
      catch (CrashNow const&)
      {
        crashed = true; // the statement was not written; the rename chain of this rotation has happened
        break;
      }
      catch (std::exception const& e)
      {
        fail("write-threw", J{}.str("what", e.what()).unum("stmt", s.id));
        break;
      }
      written.push_back(s);
      if (opens != seen_opens)
      {
        // a rotation happened before this statement was written
        rotations += opens - seen_opens;
        seen_opens = opens;
        cur_size_model = 0;
      }
      cur_size_model += sz;
      if (r.chance(1, 10)) sink->flush_sink();
      if (operator_may_remove && !operator_removed_a_backup && opens >= 3 && r.chance(1, 3))
      {
        // Index naming: the oldest backup carries the highest index
        uint32_t hi = 0;
        std::string victim;
        for (auto const& e : fs::directory_iterator(dir))
        {
          FileView fv;
          std::string const fn = e.path().filename().string();
          if (planted.count(fn) || !parse_name(fn, fv) || fv.current) continue;
          if (fv.index >= hi) { hi = fv.index; victim = e.path().string(); }
        }
        if (!victim.empty())
        {
          fs::remove(victim);
          operator_removed_a_backup = true;
          g_stats.add("directories_in_which_an_operator_removed_the_oldest_backup");
        }
      }
    }
    try
    {
      if (!crashed) sink->flush_sink();
      sink.reset();
    }
    catch (std::exception const& e)
    {
      if (!crashed) fail("close-threw", J{}.str("what", e.what()));
    }
    rotations_per_instance.push_back((opens ? opens - 1 : 0) + (crashed ? 1 : 0));
    if (crashed)
    {
      ++rotations;
      ++crashes_mid_rotation;
      g_stats.add("instances_ended_by_a_simulated_crash_between_rename_chain_and_reopen");
    }
    no_current_expected = crashed;
  }

  // ---------------------------------------------------------------- directory oracle
  bool parse_name(std::string const& fn, FileView& fv) const
  {
    // base.log | base.<idx>.log | base.<date>[.<idx>].log
    if (fn == "base.log")
    {
      fv.current = true;
      return true;
    }
    if (fn.rfind("base.", 0) != 0 || fn.size() < 10 || fn.substr(fn.size() - 4) != ".log") return false;
    std::string mid = fn.substr(5, fn.size() - 9);
    std::vector<std::string> parts;
    std::stringstream ss(mid);
    std::string p;
    while (std::getline(ss, p, '.')) parts.push_back(p);
    auto digits = [](std::string const& s) { return !s.empty() && std::all_of(s.begin(), s.end(), [](char ch) { return isdigit(static_cast<unsigned char>(ch)); }); };
    if (c.naming == 0)
    {
      if (parts.size() != 1 || !digits(parts[0])) return false;
      fv.index = static_cast<uint32_t>(std::stoul(parts[0]));
      return true;
    }
    if (parts.empty() || parts.size() > 2) return false;
    fv.suffix = parts[0];
    size_t want_len = c.naming == 1 ? 8 : 15;
    if (fv.suffix.size() != want_len) return false;
    if (parts.size() == 2)
    {
      if (!digits(parts[1])) return false;
      fv.index = static_cast<uint32_t>(std::stoul(parts[1]));
    }
    return true;
  }

  void check_directory(bool final_check)
  {
    if (failed) return;
    std::map<uint64_t, Stmt const*> by_id;
    for (auto const& s : written) by_id[s.id] = &s;
    std::vector<FileView> files;
    for (auto const& e : fs::directory_iterator(dir))
    {
      std::string fn = e.path().filename().string();
      if (planted.count(fn))
      {
        std::ifstream in(e.path(), std::ios::binary);
        std::string content((std::istreambuf_iterator<char>(in)), std::istreambuf_iterator<char>());
        if (content != planted[fn]) return fail("unrelated-file-modified", J{}.str("file", fn));
        continue;
      }
      FileView fv;
      fv.name = fn;
      if (!parse_name(fn, fv)) return fail("unexpected-file-name", J{}.str("file", fn));
      std::ifstream in(e.path(), std::ios::binary);
      std::string content((std::istreambuf_iterator<char>(in)), std::istreambuf_iterator<char>());
      fv.bytes = content.size();
      size_t pos = 0;
      while (pos < content.size())
      {
        size_t nl = content.find('\n', pos);
        if (nl == std::string::npos) return fail("torn-statement", J{}.str("file", fn).unum("offset", pos).str("tail", content.substr(pos, 60)));
        std::string line = content.substr(pos, nl - pos + 1);
        uint64_t id = 0;
        if (line.size() < 11 || line[0] != '#' || sscanf(line.c_str(), "#%lu|", &id) != 1 || !by_id.count(id) || by_id[id]->text() != line)
          return fail("torn-statement", J{}.str("file", fn).unum("offset", pos).str("line", line.substr(0, 60)));
        fv.ids.push_back(id);
        pos = nl + 1;
      }
      files.push_back(std::move(fv));
    }
    for (auto const& kv : planted)
      if (!fs::exists(dir + "/" + kv.first)) return fail("unrelated-file-removed", J{}.str("file", kv.first));
    // oldest -> newest: earlier date first, then larger index, current file last
    std::sort(files.begin(), files.end(), [](FileView const& a, FileView const& b)
              {
                if (a.current != b.current) return !a.current;
                if (a.suffix != b.suffix) return a.suffix < b.suffix;
                return a.index > b.index;
              });
    // (1) each statement in exactly one file, (2) concatenation is in written order
    std::set<uint64_t> seen;
    uint64_t last = 0;
    bool have_last = false;
    std::string last_file;
    for (auto const& f : files)
      for (uint64_t id : f.ids)
      {
        if (!seen.insert(id).second) return fail("statement-duplicated", J{}.unum("stmt", id).str("file", f.name));
        if (have_last && id < last && !c.gmt && c.naming != 0)
        {
          // dated names in LOCAL time do not order files chronologically across a backward step of the zone offset (the
          // repeated hour at the end of DST): pairs within two hours of an offset change are not judged
          auto ts_of = [&](uint64_t sid) { for (auto const& st : written) if (st.id == sid) return st.ts; return uint64_t{0}; };
          auto near_change = [](uint64_t ns)
          {
            auto off = [](time_t t) { tm d{}; localtime_r(&t, &d); return d.tm_gmtoff; };
            time_t const t = static_cast<time_t>(ns / 1000000000ull);
            return off(t - 7200) != off(t + 7200);
          };
          if (near_change(ts_of(id)) || near_change(ts_of(last)))
          {
            g_stats.add("file_order_pairs_not_judged_near_a_zone_offset_change");
            continue;
          }
        }
        if (have_last && id < last)
          return fail("files-out-of-order", J{}.unum("stmt", id).unum("after_stmt", last).str("file", f.name).str("previous_file", last_file).str("naming", c.naming == 0 ? "Index" : c.naming == 1 ? "Date" : "DateAndTime"));
        last = id;
        have_last = true;
        last_file = f.name;
      }
    // universe: everything written since the last start in 'w' mode (all instances when every later start used 'a')
    size_t uni_first = 0;
    for (size_t i = 0; i < instance_mode.size(); ++i)
      if (instance_mode[i] == 'w') uni_first = instance_first_stmt[i];
    uint32_t last_w_instance = 0;
    for (size_t i = 0; i < instance_mode.size(); ++i)
      if (instance_mode[i] == 'w') last_w_instance = static_cast<uint32_t>(i);
    std::vector<uint64_t> missing;
    for (size_t i = uni_first; i < written.size(); ++i)
      if (!seen.count(written[i].id)) missing.push_back(written[i].id);
    bool const deletion_allowed = c.overwrite && !c.unlimited;
    {
      std::set<std::string> names_now;
      std::map<std::string, std::set<uint64_t>> ids_now;
      for (auto const& f : files) { names_now.insert(f.name); ids_now[f.name].insert(f.ids.begin(), f.ids.end()); }
      for (uint64_t id : missing)
      {
        auto it = last_seen_file.find(id);
        if (it != last_seen_file.end() && it->second != "base.log" && names_now.count(it->second) && !ids_now[it->second].count(id))
          lost_in_reproduced_name = true;
      }
    }
    if (!missing.empty())
    {
      if (!deletion_allowed)
        return fail("statements-lost-without-permitted-deletion", J{}.unum("first_missing", missing.front()).unum("missing", missing.size()).unum("universe_first", written[uni_first].id));
      // only the oldest may be missing: the missing ids must be a prefix of the universe
      for (size_t k = 0; k < missing.size(); ++k)
        if (missing[k] != written[uni_first + k].id)
          return fail("non-oldest-statements-deleted", J{}.unum("missing_stmt", missing[k]).unum("older_retained_stmt", written[uni_first + k].id).unum("missing", missing.size()));
      deletions_seen += 1;
    }
    // rotated files that hold universe statements
    uint64_t const uni_first_id = uni_first < written.size() ? written[uni_first].id : UINT64_MAX;
    uint32_t rotated_universe = 0, rotated_all = 0;
    FileView const* current = nullptr;
    for (auto const& f : files)
    {
      if (f.current) { current = &f; continue; }
      ++rotated_all;
      if (!f.ids.empty() && f.ids.back() >= uni_first_id) ++rotated_universe;
    }
    if (!current && no_current_expected)
    {
      // right after a simulated crash in mid-rotation there is no active file: the remaining checks of this
      // judgement need one; the next instance (append mode) must continue the sequence and is judged in full
      return;
    }
    if (!current) return fail("current-file-missing", J{});
    uint64_t rot_since = 0;
    for (size_t i = last_w_instance; i < rotations_per_instance.size(); ++i) rot_since += rotations_per_instance[i];
    if (!c.unlimited && rotated_universe > c.backups)
      return fail("more-rotated-files-than-backup-count", J{}.unum("rotated_files", rotated_universe).unum("backups", c.backups).unum("rotations_observed", rot_since));
    // exact count only where the sink is promised to know every file: the directory started clean for this universe
    bool const clean_universe = (last_w_instance == 0) || (c.remove_old && c.naming == 0);
    if (clean_universe && last_w_instance == 0 && instance_mode.size() >= 1)
    {
      uint64_t want = c.unlimited ? rot_since : std::min<uint64_t>(rot_since, c.backups);
      if (operator_removed_a_backup && rotated_universe + 1 == want) {} // one file short until the next rotations fill up again
      else if (rotated_universe != want)
        return fail(rotated_universe < want ? "fewer-rotated-files-than-expected" : "more-rotated-files-than-expected",
                    J{}.unum("rotated_files", rotated_universe).unum("expected", want).unum("rotations_observed", rot_since).unum("backups", c.backups));
    }
    // (3) size bound
    if (c.limit)
    {
      for (auto const& f : files)
      {
        if (f.ids.size() <= 1 || f.bytes <= c.limit) continue;
        if (f.current)
        {
          bool const rotation_permitted = c.overwrite || c.unlimited || rotated_all < c.backups;
          if (!rotation_permitted) continue;
        }
        // statements older than the universe may sit in an inherited file: still whole, but not size-judged
        if (f.ids.front() < uni_first_id) continue;
        return fail("file-exceeds-size-limit", J{}.str("file", f.name).unum("bytes", f.bytes).unum("limit", c.limit).unum("statements", f.ids.size()));
      }
    }
    // ---------------- C15: time separation and naming
    if (c.freq)
    {
      std::map<uint64_t, std::string> file_of;
      for (auto const& f : files)
        for (uint64_t id : f.ids) file_of[id] = f.name;
      bool const rotation_always_permitted = c.overwrite || c.unlimited;
      for (size_t i = 1; i < written.size(); ++i)
      {
        Stmt const& a = written[i - 1];
        Stmt const& b = written[i];
        if (!file_of.count(a.id) || !file_of.count(b.id)) continue;
        if (a.instance != b.instance) continue; // a restart re-anchors the schedule at the new start instant
        uint64_t const st = instance_start_ts[a.instance];
        if (c.freq == 'D' && !c.gmt)
        {
          // daily HH:MM in local time is judged only while the zone's offset is the one the schedule was anchored with
          // (the property does not say whether "HH:MM" or "24 h" wins on a 23/25-hour day)
          auto off = [](uint64_t ns) { time_t t = static_cast<time_t>(ns / 1000000000ull); tm d{}; localtime_r(&t, &d); return d.tm_gmtoff; };
          if (off(st) != off(a.ts) || off(st) != off(b.ts)) continue;
        }
        uint64_t pa = period_index(st, a.ts), pb = period_index(st, b.ts);
        bool same_file = file_of[a.id] == file_of[b.id];
        if (pa != pb && same_file && rotation_always_permitted)
          return fail_c15("statements-across-a-rotation-point-share-a-file",
                          J{}.unum("stmt_a", a.id).unum("ts_a_s", a.ts / 1000000000ull).unum("stmt_b", b.id).unum("ts_b_s", b.ts / 1000000000ull).unum("ts_b_ns", b.ts).unum("instance_start_s", st / 1000000000ull).unum("first_point_s", first_point(st) / 1000000000ull).unum("period_s", period_ns() / 1000000000ull).unum("period_index_a", pa).unum("period_index_b", pb).str("file", file_of[a.id]));
        if (pa == pb && !same_file && c.limit != 0)
        {
          // both rotations configured: a split inside one period must be a size rotation, i.e. the file that a closes
          // could not take b any more
          uint64_t bytes_a = 0;
          bool found = false;
          for (auto const& f : files)
            if (f.name == file_of[a.id] && !f.ids.empty() && f.ids.back() == a.id) { bytes_a = f.bytes; found = true; }
          if (found && bytes_a + b.size <= c.limit)
            return fail_c15("statements-in-one-period-split-without-size-reason",
                            J{}.unum("stmt_a", a.id).unum("ts_a_ns", a.ts).unum("stmt_b", b.id).unum("ts_b_ns", b.ts).unum("instance_start_s", st / 1000000000ull).unum("first_point_s", first_point(st) / 1000000000ull).unum("bytes_of_file_closed_after_a", bytes_a).unum("size_b", b.size).unum("limit", c.limit).unum("period_index", pa).str("file_a", file_of[a.id]).str("file_b", file_of[b.id]));
        }
        if (pa == pb && !same_file && c.limit == 0)
          return fail_c15("statements-without-a-rotation-point-between-them-are-split",
                          J{}.unum("stmt_a", a.id).unum("ts_a_s", a.ts / 1000000000ull).unum("stmt_b", b.id).unum("ts_b_s", b.ts / 1000000000ull).unum("instance_start_s", st / 1000000000ull).unum("first_point_s", first_point(st) / 1000000000ull).unum("period_s", period_ns() / 1000000000ull).unum("period_index", pa).str("file_a", file_of[a.id]).str("file_b", file_of[b.id]));
      }
    }
    // naming: a rotated file carries the moment it was opened (start instant for an instance's first file, else the
    // timestamp of the first statement written into it)
    if (c.naming != 0)
    {
      std::map<uint64_t, size_t> pos_of;
      for (size_t i = 0; i < written.size(); ++i) pos_of[written[i].id] = i;
      for (auto const& f : files)
      {
        if (f.current || f.ids.empty()) continue;
        size_t lastpos = pos_of[f.ids.back()];
        if (lastpos + 1 >= written.size()) continue;
        Stmt const& trigger = written[lastpos + 1]; // the statement whose arrival rotated this file away
        Stmt const& first = written[pos_of[f.ids.front()]];
        uint64_t opened_ts = (first.instance != trigger.instance || pos_of[first.id] == instance_first_stmt[trigger.instance])
          ? instance_start_ts[trigger.instance]
          : first.ts;
        std::string want = fmt_time(opened_ts, c.gmt, c.naming == 1 ? "%Y%m%d" : "%Y%m%d_%H%M%S");
        // the instance's first statement may have been written into the file the instance opened at start, or into
        // a fresh one when the inherited file was rotated away first: both opening moments are acceptable then
        std::string const alt = fmt_time(first.ts, c.gmt, c.naming == 1 ? "%Y%m%d" : "%Y%m%d_%H%M%S");
        if (f.suffix != want && f.suffix != alt)
          return fail_c15("rotated-file-not-named-after-its-opening-moment", J{}.str("file", f.name).str("expected_suffix", want).unum("first_stmt", first.id).unum("opened_ts_s", opened_ts / 1000000000ull));
      }
    }
    (void)final_check;
    last_seen_file.clear();
    for (auto const& f : files)
      for (uint64_t id : f.ids) last_seen_file[id] = f.name;
  }

  void fail_c15(std::string const& key, J w)
  {
    char const* saved = prop;
    prop = "C15";
    in_fail_c15 = true;
    fail(key, w);
    in_fail_c15 = false;
    prop = saved;
  }

  void run()
  {
    fs::create_directories(dir);
    // unrelated files
    planted["base.txt"] = "keep me 1\n";
    planted["other.1.log"] = "keep me 2\n";
    planted["basement.1.log"] = "keep me 3\n";
    planted["xbase.log"] = "keep me 4\n";
    for (auto const& kv : planted) std::ofstream(dir + "/" + kv.first, std::ios::binary) << kv.second;
    uint64_t clock_ns = r.range(1262304000ull, 1893456000ull) * 1000000000ull + r.below(1000000000ull);
    if (c.freq == 'D' && !c.gmt)
    {
      // local daily rotation is judged on days without a DST transition: start in the first days of January or July
      time_t y = static_cast<time_t>(clock_ns / 1000000000ull);
      tm d{};
      gmtime_r(&y, &d);
      d.tm_mon = 0;
      d.tm_mday = static_cast<int>(r.range(3, 12));
      clock_ns = static_cast<uint64_t>(timegm(&d)) * 1000000000ull;
    }
    uint64_t next_id = 1;
    for (uint32_t inst = 0; inst <= c.restarts && !failed; ++inst)
    {
      uint32_t n = static_cast<uint32_t>(r.range(1, 60));
      run_instance(inst, clock_ns, next_id, n);
      check_directory(inst == c.restarts);
      // time passes between process runs
      uint64_t x = r.below(6);
      if (x == 0) clock_ns += 0;
      else if (x < 3) clock_ns += r.below(2000000000ull);
      else if (x < 5) clock_ns += r.below(7200ull * 1000000000ull);
      else clock_ns += r.below(3ull * 86400ull * 1000000000ull);
    }
    std::error_code ec;
    fs::remove_all(dir, ec);
    g_stats.add("directories");
    g_stats.add("statements", written.size());
    g_stats.add("rotations_observed", rotations);
    g_stats.add("instances", instance_mode.size());
    g_stats.add("directories_with_deliberate_deletion", deletions_seen ? 1 : 0);
    std::string sig = std::to_string(c.naming) + "/" + (c.unlimited ? "u" : std::to_string(c.backups)) + "/" + (c.overwrite ? "o" : "k") + "/" +
      std::string(1, c.later_mode) + "/" + (c.remove_old ? "r" : "-") + "/" + (c.freq ? std::string(1, c.freq) + std::to_string(c.interval) : "-") + "/" +
      (c.limit ? "s" : "-") + "/" + std::to_string(c.restarts) + (c.gmt ? "G" : "L");
    if (rotations >= 2) g_stats.sig("nontrivial", sig);
  }
};
} // namespace

int main(int argc, char** argv)
{
  Args a{argc, argv};
  std::string mode = a.s("mode", "size");
  uint64_t seed = a.u("seed", 1), cases = a.u("cases", 200);
  std::string root = a.s("dir", "");
  if (root.empty())
  {
    fprintf(stderr, "--dir required\n");
    return 2;
  }
  tzset();
  Rng r{mix(seed, 0x1415)};
  for (uint64_t i = 0; i < cases; ++i)
  {
    Case c;
    c.seed = mix(seed, i + 77);
    c.naming = static_cast<int>(r.below(3));
    c.unlimited = r.chance(1, 5);
    c.backups = static_cast<uint32_t>(r.below(6));
    c.overwrite = r.chance(2, 3);
    c.later_mode = r.chance(1, 2) ? 'a' : 'w';
    c.remove_old = r.chance(2, 3);
    c.restarts = r.chance(1, 3) ? 0 : static_cast<uint32_t>(r.range(1, 4));
    if (mode == "size")
    {
      c.limit = r.chance(1, 3) ? 512 : r.range(512, 8192);
      c.gmt = true;
    }
    else
    {
      c.gmt = r.chance(1, 2);
      uint64_t f = r.below(3);
      c.freq = f == 0 ? 'M' : f == 1 ? 'H' : 'D';
      c.interval = (c.freq == 'D') ? 0 : static_cast<uint32_t>(r.range(1, 5));
      if (c.freq == 'D')
      {
        char b[8];
        snprintf(b, sizeof b, "%02d:%02d", static_cast<int>(r.below(24)), static_cast<int>(r.chance(1, 2) ? 0 : r.below(60)));
        c.daily = b;
      }
      c.limit = r.chance(1, 3) ? r.range(512, 4096) : 0;
    }
    Runner run{c, root + "/case_" + std::to_string(i), mode == "size" ? "C14" : "C15"};
    run.run();
    if (i < 2) sample(J{}.str("harness", "rotate").str("mode", mode).raw("cfg", c.describe()).unum("statements", run.written.size()).unum("rotations", run.rotations));
  }
  g_stats.flush();
  end_ok();
  return 0;
}
