// C02 (and the unbounded part of C09): drives quill::detail::UnboundedSPSCQueue directly.
//   mode stream : producer thread + consumer thread, random delays inside the queue's own windows (QUILL_VERIF hooks)
//   mode inject : ONE thread plays both roles; the other role's steps are injected inside the hook windows, so the
//                 orders "consumer saw old node empty -> producer commits + publishes next -> consumer loads next" etc.
//                 happen deterministically; quiescent points are exact, so C09's "n <= max is granted" is judged here.
#define VF_INTERPOSE_MMAP
#include "common/interpose.h"
#include "common/util.h"
#include "quill/core/UnboundedSPSCQueue.h"

#include <thread>

using namespace vf;
namespace qv = quill::verif;

namespace
{
Stats g_stats;
std::mutex g_stats_mu;

inline uint8_t pat(uint32_t seq, uint32_t i) { return static_cast<uint8_t>((seq * 2654435761u + i * 40503u + (i >> 8)) >> 7); }

struct Cfg
{
  uint64_t initial, max, records, seed;
  uint32_t sizeclass, jit, shrink_rate;
  std::string str() const
  {
    return J{}.unum("initial", initial).unum("max", max).unum("records", records).unum("seed", seed).unum("sizeclass", sizeclass).unum("shrink_rate", shrink_rate).done();
  }
};

struct Run;
thread_local Run* tl_run = nullptr;
thread_local int tl_role = 0; // 1 producer, 2 consumer (stream mode)
thread_local bool tl_next_seen = false;
thread_local bool tl_old_empty_seen = false;
thread_local int tl_inject_depth = 0;

struct Switch
{
  uint64_t prev, now;
  bool operator==(Switch const& o) const { return prev == o.prev && now == o.now; }
};

struct Run
{
  Cfg cfg;
  bool inject;
  std::unique_ptr<quill::detail::UnboundedSPSCQueue> q;
  Rng hook_rng_p, hook_rng_c, prng, crng;

  std::atomic<uint64_t> about_to_commit{0};
  std::atomic<bool> producer_done{false};
  std::atomic<bool> abort_run{false};

  // producer state
  uint64_t seq{0}, uncommitted{0}, W{0};
  std::vector<Switch> p_switches;
  uint64_t grows{0}, shrinks{0}, shrink_noops{0}, cap_refusals{0}, throws{0}, multi_double{0}, blocked_retries{0}, unstorable_probes{0}, nonpow2_refusals{0};
  uint32_t pending_n{0}; // request being retried
  // consumer state
  uint64_t expected{0}, R{0}, pending_commit{0};
  std::vector<Switch> c_switches;
  uint64_t recheck_hits{0}, old_empty_windows{0}, idle_after_done{0}, empties{0}, empty_checks{0};
  // inject-mode stats
  uint64_t injected_p{0}, injected_c{0}, quiescent_probes{0};

  Run(Cfg const& c, bool inj)
    : cfg(c), inject(inj), hook_rng_p(mix(c.seed, 1)), hook_rng_c(mix(c.seed, 2)), prng(mix(c.seed, 3)), crng(mix(c.seed, 4))
  {
    ArmAlloc arm;
    q = std::make_unique<quill::detail::UnboundedSPSCQueue>(c.initial, c.max);
  }

  void fail(char const* prop, std::string const& key, J w)
  {
    bool exp = false;
    if (abort_run.compare_exchange_strong(exp, true))
    {
      w.raw("cfg", cfg.str()).str("mode", inject ? "inject" : "stream");
      violation(prop, key, w);
    }
  }

  // ------------------------------------------------------------------ producer
  uint32_t draw_n()
  {
    uint64_t const pc = q->producer_capacity();
    uint64_t n;
    // largest record that can ever be stored: node capacities are powers of two, so with a maximum that is not
    // a power of two sizes in (emax, max] are never granted. They are requested now and then as probes: the request
    // must be refused without allocating (and above all without growing beyond the maximum), then it is abandoned
    uint64_t emax = 1;
    while (emax * 2 <= cfg.max) emax *= 2;
    switch (cfg.sizeclass == 0 ? prng.below(10) : cfg.sizeclass)
    {
    case 0:
    case 1:
    case 2: n = 8 + prng.below(24); break;
    case 3: n = prng.range(8, std::max<uint64_t>(8, pc / 4)); break;
    case 4: n = prng.range(pc > 16 ? pc - 8 : std::min<uint64_t>(8, pc), pc); break; // about the current buffer
    case 5: n = pc + prng.range(1, 16); break;                            // just larger than the current buffer
    case 6: n = prng.range(pc, std::min<uint64_t>(emax, pc * 8)); break; // needs several doublings
    case 7: n = emax - prng.below(std::min<uint64_t>(emax - 8, 4)); break; // at the cap
    case 8: n = prng.chance(1, 3) ? cfg.max + prng.range(1, 64) : 8 + prng.below(24); break; // beyond the cap: must throw
    default: n = prng.range(8, std::min<uint64_t>(emax, 4096)); break;
    }
    if (W > cfg.records * 300 && n <= cfg.max) n = 8 + prng.below(24); // byte budget spent: finish with small records
    if (n < 8) n = 8;
    if (emax < cfg.max && prng.chance(1, 40) && W <= cfg.records * 300) n = prng.range(emax + 1, cfg.max); // unstorable probe
    else if (n > emax && n <= cfg.max) n = emax;
    if (n > cfg.max && !prng.chance(1, 50)) n = prng.chance(1, 2) ? emax : 8 + prng.below(24); // oversize requests stay rare
    return static_cast<uint32_t>(n);
  }

  void p_commit()
  {
    if (!uncommitted) return;
    about_to_commit.store(seq, std::memory_order_relaxed);
    q->commit_write();
    uncommitted = 0;
  }

  // one producer step; returns false when blocked (queue at cap and full)
  bool p_step()
  {
    if (seq >= cfg.records)
    {
      p_commit();
      return true;
    }
    if (pending_n == 0)
    {
      // shrink requests: only with nothing finished-but-uncommitted (that is how the frontend uses the queue)
      if (cfg.shrink_rate && prng.below(cfg.shrink_rate) == 0)
      {
        p_commit();
        uint64_t const pc = q->producer_capacity();
        uint64_t c;
        switch (prng.below(6))
        {
        case 0: c = pc; break;             // invalid: not smaller
        case 1: c = pc / 2 + 1; break;     // invalid: more than half
        case 2: c = pc / 2; break;         // valid boundary
        case 3: c = prng.range(1, std::max<uint64_t>(1, pc / 2)); break;
        case 4: c = 64; break;
        default: c = cfg.initial; break;
        }
        {
          ArmAlloc arm;
          q->shrink(c);
        }
        uint64_t const now = q->producer_capacity();
        bool const valid = c <= (pc >> 1);
        if (valid)
        {
          uint64_t want = 1;
          while (want < c) want <<= 1;
          if (now != want) fail("C02", "shrink-wrong-capacity", J{}.unum("before", pc).unum("requested", c).unum("after", now));
          ++shrinks;
          p_switches.push_back({pc, now});
        }
        else
        {
          if (now != pc) fail("C02", "invalid-shrink-changed-capacity", J{}.unum("before", pc).unum("requested", c).unum("after", now));
          ++shrink_noops;
        }
        return true;
      }
      pending_n = draw_n();
    }
    uint32_t const n = pending_n;
    uint64_t const pc = q->producer_capacity();
    std::byte* p = nullptr;
    bool threw = false;
    uint64_t mm_before = tl_alloc().mmaps;
    // prepare_write may commit implicitly (growth path): anything finished is "about to be committed" from here on
    if (uncommitted) about_to_commit.store(seq, std::memory_order_relaxed);
    {
      ArmAlloc arm;
      try
      {
        p = q->prepare_write(n);
      }
      catch (quill::QuillError const&)
      {
        threw = true;
      }
    }
    uint64_t const now = q->producer_capacity();
    if (now > cfg.max) fail("C02", "capacity-beyond-max", J{}.unum("capacity", now).unum("max", cfg.max).unum("n", n));
    if (n > cfg.max)
    {
      if (!threw) fail("C02", "oversize-record-not-rejected", J{}.unum("n", n).unum("max", cfg.max).boolean("granted", p != nullptr));
      if (now != pc || tl_alloc().mmaps != mm_before) fail("C02", "oversize-record-allocated", J{}.unum("n", n).unum("before", pc).unum("after", now));
      ++throws;
      pending_n = 0;
      return true;
    }
    if (threw)
    {
      fail("C02", "fitting-record-rejected-with-error", J{}.unum("n", n).unum("max", cfg.max));
      pending_n = 0;
      return true;
    }
    if (!p)
    {
      // refused: only legal when growing would exceed the cap, and then nothing may have been mapped
      uint64_t need = pc * 2;
      while (need < n) need *= 2;
      if (need <= cfg.max) fail("C02", "refused-although-growth-within-max", J{}.unum("n", n).unum("capacity", pc).unum("max", cfg.max));
      if (now != pc || (VF_CAN_INTERPOSE && tl_alloc().mmaps != mm_before))
        fail("C02", "refusal-allocated", J{}.unum("n", n).unum("before", pc).unum("after", now));
      ++cap_refusals;
      {
        uint64_t emax = 1;
        while (emax * 2 <= cfg.max) emax *= 2;
        if (n > emax)
        {
          // unstorable probe (see draw_n): refused as it must be; do not retry it
          ++unstorable_probes;
          pending_n = 0;
          return true;
        }
      }
      p_commit(); // make finished records visible, else nobody progresses
      ++blocked_retries;
      return false;
    }
    if (now != pc)
    {
      if (now < pc) fail("C02", "grow-shrank", J{}.unum("before", pc).unum("after", now));
      uint64_t want = pc * 2;
      while (want < n) want *= 2;
      if (now != want) fail("C02", "grow-wrong-capacity", J{}.unum("before", pc).unum("after", now).unum("n", n).unum("want", want));
      if (now > pc * 2) ++multi_double;
      ++grows;
      p_switches.push_back({pc, now});
      // _handle_full_queue committed the old node: everything finished so far is now visible
      // (about_to_commit must already cover it: we store it before any call that may commit)
      uncommitted = 0;
    }
    uint32_t hdr[2] = {static_cast<uint32_t>(seq), n - 8};
    std::memcpy(p, hdr, 8);
    uint8_t* d = reinterpret_cast<uint8_t*>(p) + 8;
    for (uint32_t i = 0; i < n - 8; ++i) d[i] = pat(static_cast<uint32_t>(seq), i);
    q->finish_write(n);
    W += n;
    ++seq;
    ++uncommitted;
    pending_n = 0;
    if (prng.chance(4, 5)) p_commit();
    return true;
  }

  // ------------------------------------------------------------------ consumer
  // one consumer step; returns true if a record was consumed or a switch happened
  bool c_step()
  {
    tl_next_seen = false;
    tl_old_empty_seen = false;
    if (inject && tl_inject_depth == 0)
    {
      // single-threaded mode is exact: empty() (consumer side API, used by the backend to decide that a queue is
      // drained) must not report true while committed records are unconsumed, in whichever node they are
      uint64_t const committed = seq - uncommitted;
      ++empty_checks;
      if (q->empty() && expected < committed)
      {
        fail("C02", "empty-reports-true-with-committed-records-pending", J{}.unum("consumed", expected).unum("committed", committed).unum("switches_seen", c_switches.size()).unum("producer_capacity", q->producer_capacity()).unum("consumer_capacity", q->capacity()));
        return false;
      }
    }
    quill::detail::UnboundedSPSCQueue::ReadResult rr{nullptr};
    {
      ArmAlloc arm;
      rr = q->prepare_read();
    }
    bool progressed = false;
    if (rr.allocation)
    {
      c_switches.push_back({rr.previous_capacity, rr.new_capacity});
      if (q->capacity() != rr.new_capacity)
        fail("C02", "consumer-capacity-mismatch", J{}.unum("reported", rr.new_capacity).unum("capacity", q->capacity()));
      progressed = true;
    }
    else if (tl_next_seen && rr.read_pos)
      ++recheck_hits; // record found by the second read of the old node after next was seen
    if (!rr.read_pos)
    {
      ++empties;
      if (pending_commit)
      {
        q->commit_read();
        pending_commit = 0;
      }
      return progressed;
    }
    uint32_t hdr[2];
    std::memcpy(hdr, rr.read_pos, 8);
    uint64_t const ato = about_to_commit.load(std::memory_order_relaxed);
    if (hdr[0] != static_cast<uint32_t>(expected))
    {
      fail("C02", hdr[0] < expected ? "stream-duplicate-or-reordered" : "stream-gap-or-torn", J{}.unum("expected_seq", expected).unum("got_seq", hdr[0]).unum("got_len", hdr[1]).unum("switches_seen", c_switches.size()));
      return false;
    }
    if (expected >= ato)
    {
      fail("C02", "visible-before-commit", J{}.unum("seq", expected).unum("committed_or_committing", ato));
      return false;
    }
    uint32_t const len = hdr[1];
    if (8ull + len > q->capacity())
    {
      fail("C02", "torn-length", J{}.unum("seq", expected).unum("len", len).unum("capacity", q->capacity()));
      return false;
    }
    uint8_t const* d = reinterpret_cast<uint8_t const*>(rr.read_pos) + 8;
    for (uint32_t i = 0; i < len; ++i)
      if (d[i] != pat(hdr[0], i))
      {
        fail("C02", "payload-corrupt", J{}.unum("seq", expected).unum("len", len).unum("byte", i));
        return false;
      }
    q->finish_read(8ull + len);
    R += 8ull + len;
    ++expected;
    ++pending_commit;
    if (crng.chance(1, 2) || pending_commit >= 16)
    {
      q->commit_read();
      pending_commit = 0;
    }
    return true;
  }

  // ------------------------------------------------------------------ hooks
  void on_hook(int point)
  {
    if (inject)
    {
      if (tl_inject_depth > 0) return; // no nested injection
      ++tl_inject_depth;
      if (point == qv::UQ_OLD_EMPTY_SEEN || point == qv::UQ_NEXT_SEEN || point == qv::UQ_BEFORE_DELETE)
      {
        // we are inside a consumer step: let the producer run 0..3 steps in this window
        if (point == qv::UQ_OLD_EMPTY_SEEN) ++old_empty_windows;
        uint32_t k = static_cast<uint32_t>(hook_rng_c.below(4));
        // bias: in the "old node empty" window make the producer fill up and grow as often as possible
        if (point == qv::UQ_OLD_EMPTY_SEEN && hook_rng_c.chance(1, 2)) k = 6;
        while (k--)
        {
          ++injected_p;
          if (!p_step()) break;
        }
      }
      else if (point == qv::UQ_BEFORE_PUBLISH_NEXT)
      {
        // inside a producer step, old node committed, next not yet published: let the consumer run
        uint32_t k = static_cast<uint32_t>(hook_rng_p.below(5));
        while (k--)
        {
          ++injected_c;
          c_step();
        }
      }
      --tl_inject_depth;
      return;
    }
    Rng& r = tl_role == 1 ? hook_rng_p : hook_rng_c;
    if (point == qv::UQ_OLD_EMPTY_SEEN)
    {
      ++old_empty_windows;
      if (r.chance(1, 64)) spin(static_cast<uint32_t>(r.below(8000)));
      return;
    }
    uint64_t x = r.below(16);
    if (x < 6) return;
    if (x < 12) spin(static_cast<uint32_t>(r.below(4000)));
    else if (x < 15) sched_yield();
    else std::this_thread::sleep_for(std::chrono::microseconds(r.below(50)));
  }

  // ------------------------------------------------------------------ drivers
  void producer_thread()
  {
    tl_run = this;
    tl_role = 1;
    Rng r{mix(cfg.seed, 0x77)};
    while (!abort_run.load(std::memory_order_relaxed))
    {
      if (seq >= cfg.records && uncommitted == 0 && pending_n == 0) break;
      if (!p_step())
      {
        if (r.chance(1, 4)) sched_yield(); else jitter(r, cfg.jit);
      }
      else
        jitter(r, cfg.jit);
    }
    producer_done.store(true, std::memory_order_release);
    tl_run = nullptr;
  }

  void consumer_thread()
  {
    tl_run = this;
    tl_role = 2;
    Rng r{mix(cfg.seed, 0x78)};
    while (expected < cfg.records && !abort_run.load(std::memory_order_relaxed))
    {
      if (!c_step())
      {
        if (producer_done.load(std::memory_order_acquire))
        {
          if (++idle_after_done > 3000)
          {
            fail("C02", "lost-records", J{}.unum("expected_next_seq", expected).unum("total", cfg.records).unum("switches_seen", c_switches.size()));
            break;
          }
          if (idle_after_done > 100) std::this_thread::sleep_for(std::chrono::microseconds(50));
        }
        else
          jitter(r, cfg.jit);
      }
      else
      {
        idle_after_done = 0;
        jitter(r, cfg.jit);
      }
    }
    if (pending_commit) q->commit_read();
    tl_run = nullptr;
  }

  void drain_inject()
  {
    // consumer runs until nothing is left (exact quiescence in single-threaded mode)
    uint32_t idle = 0;
    ++tl_inject_depth; // no injected producer steps while draining
    while (idle < 3 && !abort_run.load())
    {
      if (c_step()) idle = 0; else ++idle;
    }
    --tl_inject_depth;
  }

  void inject_driver()
  {
    tl_run = this;
    Rng r{mix(cfg.seed, 0x79)};
    uint64_t guard = 0;
    while (!abort_run.load() && (seq < cfg.records || expected < cfg.records))
    {
      if (++guard > cfg.records * 400 + 100000)
      {
        fail("C02", "no-progress", J{}.unum("seq", seq).unum("expected", expected));
        break;
      }
      uint32_t pick = static_cast<uint32_t>(r.below(100));
      if (pick < 50 && (seq < cfg.records || uncommitted))
      {
        if (!p_step())
        {
          // blocked at the cap: consumer must make room
          c_step();
        }
      }
      else if (pick < 97)
        c_step();
      else
      {
        // quiescent point: publish everything, drain everything, then a fitting request must be granted (C09)
        p_commit();
        if (pending_n) continue; // a request is mid-retry; keep the model simple
        drain_inject();
        if (expected != seq)
        {
          fail("C02", "lost-records", J{}.unum("expected_next_seq", expected).unum("produced", seq).unum("switches_seen", c_switches.size()).str("at", "quiescent point"));
          break;
        }
        if (seq < cfg.records)
        {
          // largest size a node can ever hold: node capacities are powers of two
          uint64_t emax = 1;
          while (emax * 2 <= cfg.max) emax *= 2;
          uint32_t n;
          switch (r.below(4))
          {
          case 0: n = static_cast<uint32_t>(cfg.max); break;
          case 1: n = static_cast<uint32_t>(q->producer_capacity()); break;
          case 2: n = static_cast<uint32_t>(r.range(8, cfg.max)); break;
          default: n = static_cast<uint32_t>(std::min<uint64_t>(cfg.max, q->producer_capacity() - r.below(40))); break;
          }
          if (n < 8) n = 8;
          pending_n = n;
          ++quiescent_probes;
          uint64_t const pc = q->producer_capacity();
          ++tl_inject_depth; // no injected consumer steps during the probe: the state must stay quiescent
          uint64_t const seq_before = seq;
          bool ok = p_step();
          --tl_inject_depth;
          if (!ok || seq == seq_before)
          {
            if (n > emax)
            {
              // recorded finding class: the maximum is not a power of two and emax < n <= max; the request is not
              // retried (it can never be granted)
              violation("C09", "unbounded-empty-queue-refuses-fitting-record:maximum-not-a-power-of-two",
                        J{}.unum("n", n).unum("max", cfg.max).unum("largest_node_capacity_within_max", emax).unum("producer_capacity", pc).str("family", "queue-probe"));
              pending_n = 0;
              ++nonpow2_refusals;
              continue;
            }
            fail("C09", "unbounded-empty-queue-refuses-fitting-record",
                 J{}.unum("n", n).unum("max", cfg.max).unum("producer_capacity", pc).str("family", "queue-probe"));
            break;
          }
        }
      }
    }
    p_commit();
    drain_inject();
    tl_run = nullptr;
  }

  void finish_and_report()
  {
    if (!abort_run.load())
    {
      if (expected != seq) fail("C02", "lost-records", J{}.unum("expected_next_seq", expected).unum("produced", seq).str("at", "end"));
      else if (R != W) fail("C02", "conservation", J{}.unum("produced_bytes", W).unum("consumed_bytes", R));
      else if (!q->empty()) fail("C02", "not-empty-at-end", J{});
      else if (!(p_switches == c_switches))
      {
        std::string ps, cs;
        for (auto& s : p_switches) ps += std::to_string(s.prev) + ">" + std::to_string(s.now) + " ";
        for (auto& s : c_switches) cs += std::to_string(s.prev) + ">" + std::to_string(s.now) + " ";
        fail("C02", "switch-sequence-differs", J{}.str("producer", ps.substr(0, 600)).str("consumer", cs.substr(0, 600)));
      }
    }
    {
      ArmAlloc arm;
      q.reset();
    }
    auto& ac = tl_alloc();
    (void)ac;
  }
};

void hook(int point, void const*, uint64_t)
{
  if (point == qv::UQ_NEXT_SEEN) tl_next_seen = true;
  if (tl_run) tl_run->on_hook(point);
}

// mapping accounting needs all queue operations of a run on threads whose counters we can read: the run collects
// the producer and consumer thread-local counters itself.
struct MapTotals
{
  uint64_t mmaps{0}, munmaps{0}, max_len{0};
  int64_t live{0};
};

void run_cfg(Cfg const& c, bool inject)
{
  MapTotals mt;
  auto grab = [&mt]
  {
    auto& a = tl_alloc();
    mt.mmaps += a.mmaps;
    mt.munmaps += a.munmaps;
    mt.live += static_cast<int64_t>(a.mmap_bytes_live);
    if (a.mmap_max_len > mt.max_len) mt.max_len = a.mmap_max_len;
    a.reset();
  };
  std::mutex mu;
  tl_alloc().reset();
  Run run{c, inject};
  if (inject)
  {
    run.inject_driver();
  }
  else
  {
    std::thread tc([&] { run.consumer_thread(); std::lock_guard<std::mutex> g{mu}; grab(); });
    std::thread tp([&] { run.producer_thread(); std::lock_guard<std::mutex> g{mu}; grab(); });
    tp.join();
    tc.join();
  }
  run.finish_and_report();
  grab();
  if (getenv("VF_TIMING")) fprintf(stderr, "cfg %s %s refusals=%llu empties=%llu\n", c.str().c_str(), inject ? "inject" : "stream", (unsigned long long)run.cap_refusals, (unsigned long long)run.empties);
#if VF_CAN_INTERPOSE
  if (!run.abort_run.load())
  {
    // every mapping belongs to a queue node: 2*capacity + metadata(16) + alignment(128)
    if (mt.max_len > 2 * c.max + 16 + 128)
      run.fail("C02", "mapping-beyond-max", J{}.unum("largest_mapping", mt.max_len).unum("max", c.max));
    if (mt.live != 0 || mt.mmaps != mt.munmaps)
      run.fail("C02", "mappings-leaked-or-double-freed", J{}.num("live_bytes", mt.live).unum("mmaps", mt.mmaps).unum("munmaps", mt.munmaps));
    if (mt.mmaps != 1 + run.p_switches.size())
      run.fail("C02", "mappings-differ-from-nodes", J{}.unum("mmaps", mt.mmaps).unum("nodes", 1 + run.p_switches.size()));
  }
#endif
  std::lock_guard<std::mutex> g{g_stats_mu};
  g_stats.add(inject ? "inject_configs" : "stream_configs");
  g_stats.add("records", run.expected);
  g_stats.add("grow_switches", run.grows);
  g_stats.add("multi_doubling_grows", run.multi_double);
  g_stats.add("shrink_switches", run.shrinks);
  g_stats.add("shrink_noops", run.shrink_noops);
  g_stats.add("cap_refusals", run.cap_refusals);
  g_stats.add("unstorable_size_probes_refused", run.unstorable_probes);
  g_stats.add("fitting_records_refused_because_maximum_is_not_a_power_of_two", run.nonpow2_refusals);
  g_stats.add("oversize_throws", run.throws);
  g_stats.add("recheck_hits_old_node_after_next_seen", run.recheck_hits);
  g_stats.add("old_empty_windows", run.old_empty_windows);
  g_stats.add("consumer_switches_observed", run.c_switches.size());
  g_stats.add("injected_producer_steps", run.injected_p);
  g_stats.add("injected_consumer_steps", run.injected_c);
  g_stats.add("c09_quiescent_probes", run.quiescent_probes);
  g_stats.add("empty_api_consistency_checks", run.empty_checks);
  g_stats.add("queue_mappings_created", mt.mmaps);
  g_stats.add("queue_mappings_destroyed", mt.munmaps);
  g_stats.mx("max_mapping_len", static_cast<long long>(mt.max_len));
  std::string sig = std::to_string(c.initial) + "/" + std::to_string(c.max) + "/" + (run.grows ? "G" : "-") +
    (run.shrinks ? "S" : "-") + (run.cap_refusals ? "C" : "-") + (run.recheck_hits ? "R" : "-") + (inject ? "i" : "s");
  if (run.grows && (run.shrinks || run.cap_refusals)) g_stats.sig("nontrivial", sig);
}
} // namespace

int main(int argc, char** argv)
{
  Args a{argc, argv};
  std::string mode = a.s("mode", "stream");
  uint64_t seed = a.u("seed", 1), configs = a.u("configs", 20), records = a.u("records", 20000), par = a.u("par", 1);
  quill::verif::g_hook.store(hook);
  Rng r{mix(seed, 0x52)};
  static uint64_t const inits[] = {64, 128, 256, 1024, 4096};
  std::vector<Cfg> cfgs;
  for (uint64_t i = 0; i < configs; ++i)
  {
    Cfg c;
    c.initial = inits[r.below(5)];
    uint64_t m = c.initial << r.below(9);
    if (m > (1u << 20)) m = 1u << 20;
    if (r.chance(1, 8)) m = m + m / 2; // a maximum that is not a power of two (cap check only)
    c.max = m;
    c.records = records;
    c.seed = mix(seed, i + 2000);
    c.sizeclass = r.chance(2, 3) ? 0 : static_cast<uint32_t>(r.range(1, 9));
    c.jit = static_cast<uint32_t>(r.range(1, 3));
    c.shrink_rate = r.chance(1, 4) ? 0 : static_cast<uint32_t>(r.pick({20u, 100u, 600u}));
    cfgs.push_back(c);
  }
  std::atomic<uint64_t> next{0};
  std::vector<std::thread> pool;
  auto worker = [&]
  {
    while (true)
    {
      uint64_t i = next.fetch_add(1);
      if (i >= cfgs.size()) break;
      run_cfg(cfgs[i], mode == "inject");
    }
  };
  for (uint64_t p = 0; p < par; ++p) pool.emplace_back(worker);
  for (auto& t : pool) t.join();
  if (!cfgs.empty()) sample(J{}.str("harness", "q_unbounded").str("mode", mode).raw("cfg", cfgs[0].str()));
  g_stats.add("mmap_interposed", VF_CAN_INTERPOSE);
  g_stats.flush();
  end_ok();
  return 0;
}
