// C19: named-argument templates. A catalogue of templates (compile time in quill) each with, from its own
// construction (not by parsing), the positional template, the name list and the spec list. The order in which the
// templates are first used is shuffled per seed (the backend caches the parsed template per format string).
// Sinks: a recording sink (message + named args, judged here) and a JsonFileSink (judged by the driver with Python's
// json module against the sidecar file expect.jsonl written here).
#include "common/rec.h"
#include "common/util.h"

#include "quill/Backend.h"
#include "quill/Frontend.h"
#include "quill/LogMacros.h"
#include "quill/Logger.h"
#include "quill/backend/ManualBackendWorker.h"
#include "quill/sinks/JsonSink.h"

#include <fstream>
#include <functional>

using namespace vf;

namespace
{
Stats g_stats;
quill::Logger* g_lg = nullptr;
quill::ManualBackendWorker* g_manual = nullptr;
std::ofstream g_expect;
bool g_failed = false;
uint64_t g_statements = 0;

std::string json_str(std::string const& s) { return "\"" + jesc(s) + "\""; }

// values that need no JSON escaping and no hex escaping
std::string rstr(Rng& r)
{
  static char const al[] = "abcdefghijklmnopqrstuvwxyzABCDEFGHIJKLMNOPQRSTUVWXYZ0123456789 _-.:;,!?()[]<>=+*#@$%^&~|";
  size_t n = r.below(14);
  std::string s;
  for (size_t i = 0; i < n; ++i) s += al[r.below(sizeof al - 1)];
  return s;
}

// hostile values: bytes the backend hex-escapes (control bytes incl. the single bytes of the library's internal value
// separator "\x01\x02\x03", DEL, bytes >= 0x80), quotes and backslashes. Never a raw newline (one line per statement is
// only promised without one). With a small probability the value contains the complete three-byte separator: that is
// the recorded finding class "value-contains-reserved-separator".
bool g_sep_in_value = false;
bool g_expect_error = false; // the statement just logged cannot be formatted: not judged itself
std::string hstr(Rng& r)
{
  static std::string const parts[] = {"\x01", "\x02", "\x03", "\x01\x02", "\x02\x03", "\x03\x02\x01", "\x7f", "\x80", "\xc3\xa9", "\xff", "\"", "\\", "\t", "\x1b[0m",
                                      "8=FIX.4.2", "9=12", "35=0", "a", "Z", "0", " ", "=", "{", "}", "{}", "%d"};
  size_t n = r.below(9);
  std::string s;
  for (size_t i = 0; i < n; ++i) s += parts[r.below(sizeof parts / sizeof parts[0])];
  std::string const sep{"\x01\x02\x03"};
  for (size_t pos; (pos = s.find(sep)) != std::string::npos;) s.erase(pos + 1, 1); // no accidental full separator
  if (r.chance(1, 48))
  {
    s.insert(r.below(s.size() + 1), sep);
    g_sep_in_value = true;
  }
  return s;
}
// reference for the configured (default) sanitisation: every byte outside ' '..'~' and '\n' becomes \xHH (upper case)
std::string san_ref(std::string const& in)
{
  std::string out;
  for (char c : in)
  {
    if ((c >= ' ' && c <= '~') || c == '\n') out += c;
    else
    {
      char b[8];
      snprintf(b, sizeof b, "\\x%02X", static_cast<unsigned>(static_cast<unsigned char>(c)));
      out += b;
    }
  }
  return out;
}

struct Tmpl
{
  char const* fmt;                 // the template as written in the source
  char const* positional;          // the same with names stripped (specs kept)
  std::vector<char const*> names;  // placeholder names, in order
  std::vector<char const*> specs;  // "" or e.g. ":>8"
  bool defect_class;               // a placeholder immediately followed by an escaped "}}" (recorded finding class)
  std::function<void(Rng&, std::string& /*expected text*/, std::vector<std::string>& /*expected values*/)> log;
};
std::vector<Tmpl> g_cat;

template <typename T>
std::string fmt_one(char const* spec, T const& v)
{
  return fmtquill::format(fmtquill::runtime(std::string{"{"} + spec + "}"), v);
}

// NT(fmt, positional, defect, (names...), (specs...), decl of args, arg list)
#define NT(FMT, POS, DEFECT, NAMES, SPECS, GEN, ...)                                                                      \
  g_cat.push_back(Tmpl{FMT, POS, std::vector<char const*> SPECS_ARRAY NAMES, std::vector<char const*> SPECS_ARRAY SPECS, DEFECT, \
                       [](Rng& r, std::string& text, std::vector<std::string>& vals)                                     \
                       {                                                                                                 \
                         GEN;                                                                                            \
                         text = san_ref(fmtquill::format(fmtquill::runtime(POS), __VA_ARGS__));                          \
                         char const* const specs[] = SPECS_ARRAY SPECS;                                                  \
                         size_t k = 0;                                                                                   \
                         auto each = [&](auto const& v) { vals.push_back(san_ref(fmt_one(specs[k++], v))); };            \
                         apply_each(each, __VA_ARGS__);                                                                  \
                         LOG_INFO(g_lg, FMT, __VA_ARGS__);                                                               \
                       }})
#define SPECS_ARRAY(...) {__VA_ARGS__}
template <typename F, typename... A>
void apply_each(F& f, A const&... a)
{
  (f(a), ...);
}

void build()
{
#define I int i = static_cast<int>(r.next() % 200000) - 100000
#define D double d = static_cast<double>(r.below(1000000)) / 64.0
#define S std::string s = rstr(r)
#define U uint64_t u = r.next()
#define S2 std::string s2 = rstr(r)
#define I2 int j = static_cast<int>(r.below(1000))
#define HS std::string s = hstr(r)
#define HS2 std::string s2 = hstr(r)
  NT("plain {x}", "plain {}", false, ("x"), (""), I, i);
  NT("{a} and {b}", "{} and {}", false, ("a", "b"), ("", ""), I; S, i, s);
  NT("{x:>8}|{y:<6}|{z:^10}", "{:>8}|{:<6}|{:^10}", false, ("x", "y", "z"), (":>8", ":<6", ":^10"), I; S; D, i, s, d);
  NT("{v:.3f} {n:05d} {s:_^12}", "{:.3f} {:05d} {:_^12}", false, ("v", "n", "s"), (":.3f", ":05d", ":_^12"), D; I2; S, d, j, s);
  NT("{{literal}} {a}", "{{literal}} {}", false, ("a"), (""), I, i);
  NT("{a} {{x}} {b}", "{} {{x}} {}", false, ("a", "b"), ("", ""), I; S, i, s);
  NT("{{ {a} }}", "{{ {} }}", false, ("a"), (""), I, i);
  NT("{{{a}}}", "{{{}}}", true, ("a"), (""), I, i);
  NT("{a}}} {b}", "{}}} {}", true, ("a", "b"), ("", ""), I; S, i, s);
  NT("x{{{a}}}y{b}", "x{{{}}}y{}", true, ("a", "b"), ("", ""), I; I2, i, j);
  NT("{{{{}}}} {name}", "{{{{}}}} {}", false, ("name"), (""), S, s);
  NT("{val_1} {val2} {V}", "{} {} {}", false, ("val_1", "val2", "V"), ("", "", ""), I; D; S, i, d, s);
  NT("nospace{a}{b}{c}", "nospace{}{}{}", false, ("a", "b", "c"), ("", "", ""), I; I2; S, i, j, s);
  NT("line1 {a}\nline2 {b}", "line1 {}\nline2 {}", false, ("a", "b"), ("", ""), I; S, i, s);
  NT("\nleading newline {a}", "\nleading newline {}", false, ("a"), (""), I, i);
  NT("{a} trailing newline\n", "{} trailing newline\n", false, ("a"), (""), I, i);
  NT("\n\n{a}\n\n{b}\n\n", "\n\n{}\n\n{}\n\n", false, ("a", "b"), ("", ""), I; I2, i, j);
  NT("{x:#x} {y:+} {s:>20} {d:10.2e}", "{:#x} {:+} {:>20} {:10.2e}", false, ("x", "y", "s", "d"), (":#x", ":+", ":>20", ":10.2e"), U; I; S; D, u, i, s, d);
  NT("{only}", "{}", false, ("only"), (""), S, s);
  NT("{a}{{}}{b}", "{}{{}}{}", false, ("a", "b"), ("", ""), I; I2, i, j);
  NT("end brace {a} }}", "end brace {} }}", false, ("a"), (""), I, i);
  NT("{{ start {a}", "{{ start {}", false, ("a"), (""), I, i);
  NT("{a:<3}{b:>3}", "{:<3}{:>3}", false, ("a", "b"), (":<3", ":>3"), I2, j, j);
  NT("{first} {second} {third} {fourth} {fifth} {sixth}", "{} {} {} {} {} {}", false, ("first", "second", "third", "fourth", "fifth", "sixth"), ("", "", "", "", "", ""),
     I; D; S; U; I2; S2, i, d, s, u, j, s2);
  NT("{a} {b} {c} {d} {e} {f} {g} {h} {i} {j} {k} {l} {m}", "{} {} {} {} {} {} {} {} {} {} {} {} {}", false,
     ("a", "b", "c", "d", "e", "f", "g", "h", "i", "j", "k", "l", "m"), ("", "", "", "", "", "", "", "", "", "", "", "", ""), I; I2; S; D, i, j, s, d, i, j, s, d, i, j, s, d, i);
  NT("{a} {b} {c} {d} {e} {f} {g} {h} {i} {j} {k} {l} {m} {n} {o} {p} {q} {r} {s} {t} {u} {v} {w} {x} {y} {z}",
     "{} {} {} {} {} {} {} {} {} {} {} {} {} {} {} {} {} {} {} {} {} {} {} {} {} {}", false,
     ("a", "b", "c", "d", "e", "f", "g", "h", "i", "j", "k", "l", "m", "n", "o", "p", "q", "r", "s", "t", "u", "v", "w", "x", "y", "z"),
     ("", "", "", "", "", "", "", "", "", "", "", "", "", "", "", "", "", "", "", "", "", "", "", "", "", ""), I; I2; S; D,
     i, j, s, d, i, j, s, d, i, j, s, d, i, j, s, d, i, j, s, d, i, j, s, d, i, j);
  NT("same text different template A {a}", "same text different template A {}", false, ("a"), (""), I, i);
  NT("same text different template A {b}", "same text different template A {}", false, ("b"), (""), I, i);
  NT("{a:>4}|{a2:>4}", "{:>4}|{:>4}", false, ("a", "a2"), (":>4", ":>4"), I2, j, j);
  // a spec that itself begins with ':' (the colon as fill character): the name ends at the FIRST ':'
  NT("balance {amount::>12.2f} EUR", "balance {::>12.2f} EUR", false, ("amount"), ("::>12.2f"), D, d);
  NT("{id::<6}|{n::^9}|{plain}", "{::<6}|{::^9}|{}", false, ("id", "n", "plain"), ("::<6", "::^9", ""), I2; I; S, j, i, s);
  NT("{s::>20} {t:-<8}", "{::>20} {:-<8}", false, ("s", "t"), ("::>20", ":-<8"), S; S2, s, s2);
  // values that the backend has to hex-escape, next to values with specs
  NT("sent {fix} with seq {seq:04d}", "sent {} with seq {:04d}", false, ("fix", "seq"), ("", ":04d"), HS; I2, s, j);
  NT("{k1}|{k2}|{k3}", "{}|{}|{}", false, ("k1", "k2", "k3"), ("", "", ""), HS; HS2; I, s, s2, i);
  NT("{n:>6} {raw:>12} {tail}", "{:>6} {:>12} {}", false, ("n", "raw", "tail"), (":>6", ":>12", ""), I2; HS; HS2, j, s, s2);
  NT("{first_raw}{second_raw}", "{}{}", false, ("first_raw", "second_raw"), ("", ""), HS; HS2, s, s2);
  // LOGJ_ forms: the macro generates the template "<text> {var1}, {var2}, ..." from the variable names
  g_cat.push_back(Tmpl{"request done {count}, {user}", "request done {}, {}", {"count", "user"}, {"", ""}, false,
                       [](Rng& r, std::string& text, std::vector<std::string>& vals)
                       {
                         int count = static_cast<int>(r.below(100000));
                         std::string user = rstr(r);
                         text = fmtquill::format("request done {}, {}", count, user);
                         vals = {fmtquill::format("{}", count), user};
                         LOGJ_INFO(g_lg, "request done", count, user);
                       }});
  g_cat.push_back(Tmpl{"single {value}", "single {}", {"value"}, {""}, false,
                       [](Rng& r, std::string& text, std::vector<std::string>& vals)
                       {
                         double value = static_cast<double>(r.below(100000)) / 16.0;
                         text = fmtquill::format("single {}", value);
                         vals = {fmtquill::format("{}", value)};
                         LOGJ_INFO(g_lg, "single", value);
                       }});
  g_cat.push_back(Tmpl{"five {a1}, {b2}, {c3}, {d4}, {e5}", "five {}, {}, {}, {}, {}", {"a1", "b2", "c3", "d4", "e5"}, {"", "", "", "", ""}, false,
                       [](Rng& r, std::string& text, std::vector<std::string>& vals)
                       {
                         int a1 = static_cast<int>(r.below(1000));
                         uint64_t b2 = r.next();
                         std::string c3 = rstr(r);
                         double d4 = 0.5;
                         bool e5 = r.chance(1, 2);
                         text = fmtquill::format("five {}, {}, {}, {}, {}", a1, b2, c3, d4, e5);
                         vals = {fmtquill::format("{}", a1), fmtquill::format("{}", b2), c3, fmtquill::format("{}", d4), fmtquill::format("{}", e5)};
                         LOGJ_INFO(g_lg, "five", a1, b2, c3, d4, e5);
                       }});
  g_cat.push_back(Tmpl{"thirteen {a01}, {a02}, {a03}, {a04}, {a05}, {a06}, {a07}, {a08}, {a09}, {a10}, {a11}, {a12}, {a13}", "thirteen {}, {}, {}, {}, {}, {}, {}, {}, {}, {}, {}, {}, {}", {"a01", "a02", "a03", "a04", "a05", "a06", "a07", "a08", "a09", "a10", "a11", "a12", "a13"}, {"", "", "", "", "", "", "", "", "", "", "", "", ""}, false,
                       [](Rng& r, std::string& text, std::vector<std::string>& vals)
                       {
                         int a01 = static_cast<int>(r.below(100000)) + 0;
                         int a02 = static_cast<int>(r.below(100000)) + 1;
                         int a03 = static_cast<int>(r.below(100000)) + 2;
                         int a04 = static_cast<int>(r.below(100000)) + 3;
                         int a05 = static_cast<int>(r.below(100000)) + 4;
                         int a06 = static_cast<int>(r.below(100000)) + 5;
                         int a07 = static_cast<int>(r.below(100000)) + 6;
                         int a08 = static_cast<int>(r.below(100000)) + 7;
                         int a09 = static_cast<int>(r.below(100000)) + 8;
                         int a10 = static_cast<int>(r.below(100000)) + 9;
                         int a11 = static_cast<int>(r.below(100000)) + 10;
                         int a12 = static_cast<int>(r.below(100000)) + 11;
                         int a13 = static_cast<int>(r.below(100000)) + 12;
                         text = fmtquill::format("thirteen {}, {}, {}, {}, {}, {}, {}, {}, {}, {}, {}, {}, {}", a01, a02, a03, a04, a05, a06, a07, a08, a09, a10, a11, a12, a13);
                         vals = {fmtquill::format("{}", a01), fmtquill::format("{}", a02), fmtquill::format("{}", a03), fmtquill::format("{}", a04), fmtquill::format("{}", a05), fmtquill::format("{}", a06), fmtquill::format("{}", a07), fmtquill::format("{}", a08), fmtquill::format("{}", a09), fmtquill::format("{}", a10), fmtquill::format("{}", a11), fmtquill::format("{}", a12), fmtquill::format("{}", a13)};
                         LOGJ_INFO(g_lg, "thirteen", a01, a02, a03, a04, a05, a06, a07, a08, a09, a10, a11, a12, a13);
                       }});
  g_cat.push_back(Tmpl{"seventeen {b01}, {b02}, {b03}, {b04}, {b05}, {b06}, {b07}, {b08}, {b09}, {b10}, {b11}, {b12}, {b13}, {b14}, {b15}, {b16}, {b17}", "seventeen {}, {}, {}, {}, {}, {}, {}, {}, {}, {}, {}, {}, {}, {}, {}, {}, {}", {"b01", "b02", "b03", "b04", "b05", "b06", "b07", "b08", "b09", "b10", "b11", "b12", "b13", "b14", "b15", "b16", "b17"}, {"", "", "", "", "", "", "", "", "", "", "", "", "", "", "", "", ""}, false,
                       [](Rng& r, std::string& text, std::vector<std::string>& vals)
                       {
                         int b01 = static_cast<int>(r.below(100000)) + 0;
                         int b02 = static_cast<int>(r.below(100000)) + 1;
                         int b03 = static_cast<int>(r.below(100000)) + 2;
                         int b04 = static_cast<int>(r.below(100000)) + 3;
                         int b05 = static_cast<int>(r.below(100000)) + 4;
                         int b06 = static_cast<int>(r.below(100000)) + 5;
                         int b07 = static_cast<int>(r.below(100000)) + 6;
                         int b08 = static_cast<int>(r.below(100000)) + 7;
                         int b09 = static_cast<int>(r.below(100000)) + 8;
                         int b10 = static_cast<int>(r.below(100000)) + 9;
                         int b11 = static_cast<int>(r.below(100000)) + 10;
                         int b12 = static_cast<int>(r.below(100000)) + 11;
                         int b13 = static_cast<int>(r.below(100000)) + 12;
                         int b14 = static_cast<int>(r.below(100000)) + 13;
                         int b15 = static_cast<int>(r.below(100000)) + 14;
                         int b16 = static_cast<int>(r.below(100000)) + 15;
                         int b17 = static_cast<int>(r.below(100000)) + 16;
                         text = fmtquill::format("seventeen {}, {}, {}, {}, {}, {}, {}, {}, {}, {}, {}, {}, {}, {}, {}, {}, {}", b01, b02, b03, b04, b05, b06, b07, b08, b09, b10, b11, b12, b13, b14, b15, b16, b17);
                         vals = {fmtquill::format("{}", b01), fmtquill::format("{}", b02), fmtquill::format("{}", b03), fmtquill::format("{}", b04), fmtquill::format("{}", b05), fmtquill::format("{}", b06), fmtquill::format("{}", b07), fmtquill::format("{}", b08), fmtquill::format("{}", b09), fmtquill::format("{}", b10), fmtquill::format("{}", b11), fmtquill::format("{}", b12), fmtquill::format("{}", b13), fmtquill::format("{}", b14), fmtquill::format("{}", b15), fmtquill::format("{}", b16), fmtquill::format("{}", b17)};
                         LOGJ_INFO(g_lg, "seventeen", b01, b02, b03, b04, b05, b06, b07, b08, b09, b10, b11, b12, b13, b14, b15, b16, b17);
                       }});
  g_cat.push_back(Tmpl{"twentysix {c01}, {c02}, {c03}, {c04}, {c05}, {c06}, {c07}, {c08}, {c09}, {c10}, {c11}, {c12}, {c13}, {c14}, {c15}, {c16}, {c17}, {c18}, {c19}, {c20}, {c21}, {c22}, {c23}, {c24}, {c25}, {c26}", "twentysix {}, {}, {}, {}, {}, {}, {}, {}, {}, {}, {}, {}, {}, {}, {}, {}, {}, {}, {}, {}, {}, {}, {}, {}, {}, {}", {"c01", "c02", "c03", "c04", "c05", "c06", "c07", "c08", "c09", "c10", "c11", "c12", "c13", "c14", "c15", "c16", "c17", "c18", "c19", "c20", "c21", "c22", "c23", "c24", "c25", "c26"}, {"", "", "", "", "", "", "", "", "", "", "", "", "", "", "", "", "", "", "", "", "", "", "", "", "", ""}, false,
                       [](Rng& r, std::string& text, std::vector<std::string>& vals)
                       {
                         int c01 = static_cast<int>(r.below(100000)) + 0;
                         int c02 = static_cast<int>(r.below(100000)) + 1;
                         int c03 = static_cast<int>(r.below(100000)) + 2;
                         int c04 = static_cast<int>(r.below(100000)) + 3;
                         int c05 = static_cast<int>(r.below(100000)) + 4;
                         int c06 = static_cast<int>(r.below(100000)) + 5;
                         int c07 = static_cast<int>(r.below(100000)) + 6;
                         int c08 = static_cast<int>(r.below(100000)) + 7;
                         int c09 = static_cast<int>(r.below(100000)) + 8;
                         int c10 = static_cast<int>(r.below(100000)) + 9;
                         int c11 = static_cast<int>(r.below(100000)) + 10;
                         int c12 = static_cast<int>(r.below(100000)) + 11;
                         int c13 = static_cast<int>(r.below(100000)) + 12;
                         int c14 = static_cast<int>(r.below(100000)) + 13;
                         int c15 = static_cast<int>(r.below(100000)) + 14;
                         int c16 = static_cast<int>(r.below(100000)) + 15;
                         int c17 = static_cast<int>(r.below(100000)) + 16;
                         int c18 = static_cast<int>(r.below(100000)) + 17;
                         int c19 = static_cast<int>(r.below(100000)) + 18;
                         int c20 = static_cast<int>(r.below(100000)) + 19;
                         int c21 = static_cast<int>(r.below(100000)) + 20;
                         int c22 = static_cast<int>(r.below(100000)) + 21;
                         int c23 = static_cast<int>(r.below(100000)) + 22;
                         int c24 = static_cast<int>(r.below(100000)) + 23;
                         int c25 = static_cast<int>(r.below(100000)) + 24;
                         int c26 = static_cast<int>(r.below(100000)) + 25;
                         text = fmtquill::format("twentysix {}, {}, {}, {}, {}, {}, {}, {}, {}, {}, {}, {}, {}, {}, {}, {}, {}, {}, {}, {}, {}, {}, {}, {}, {}, {}", c01, c02, c03, c04, c05, c06, c07, c08, c09, c10, c11, c12, c13, c14, c15, c16, c17, c18, c19, c20, c21, c22, c23, c24, c25, c26);
                         vals = {fmtquill::format("{}", c01), fmtquill::format("{}", c02), fmtquill::format("{}", c03), fmtquill::format("{}", c04), fmtquill::format("{}", c05), fmtquill::format("{}", c06), fmtquill::format("{}", c07), fmtquill::format("{}", c08), fmtquill::format("{}", c09), fmtquill::format("{}", c10), fmtquill::format("{}", c11), fmtquill::format("{}", c12), fmtquill::format("{}", c13), fmtquill::format("{}", c14), fmtquill::format("{}", c15), fmtquill::format("{}", c16), fmtquill::format("{}", c17), fmtquill::format("{}", c18), fmtquill::format("{}", c19), fmtquill::format("{}", c20), fmtquill::format("{}", c21), fmtquill::format("{}", c22), fmtquill::format("{}", c23), fmtquill::format("{}", c24), fmtquill::format("{}", c25), fmtquill::format("{}", c26)};
                         LOGJ_INFO(g_lg, "twentysix", c01, c02, c03, c04, c05, c06, c07, c08, c09, c10, c11, c12, c13, c14, c15, c16, c17, c18, c19, c20, c21, c22, c23, c24, c25, c26);
                       }});
  // a named statement that cannot be formatted (spec does not fit the type): written with the error text; the NEXT
  // statement must be unaffected (expect_error: only the statement after it is judged)
  g_cat.push_back(Tmpl{"ok {n} {m:>5} then bad {label:d}", "ok {} {:>5} then bad {:d}", {"n", "m", "label"}, {"", ":>5", ":d"}, false,
                       [](Rng& r, std::string& text, std::vector<std::string>& vals)
                       {
                         std::string label = rstr(r) + "x";
                         int n = static_cast<int>(r.below(1000));
                         int m = static_cast<int>(r.below(100));
                         text = "<error text>";
                         vals = {};
                         g_expect_error = true;
                         LOG_INFO(g_lg, "ok {n} {m:>5} then bad {label:d}", n, m, label); // values are formatted before the failing one
                       }});
  g_cat.push_back(Tmpl{"bad {label:d} then {n}", "bad {:d} then {}", {"label", "n"}, {":d", ""}, false,
                       [](Rng& r, std::string& text, std::vector<std::string>& vals)
                       {
                         std::string label = rstr(r) + "x";
                         int n = static_cast<int>(r.below(1000));
                         text = "<error text>";
                         vals = {};
                         g_expect_error = true;
                         LOG_INFO(g_lg, "bad {label:d} then {n}", label, n);
                       }});
#undef I
#undef D
#undef S
#undef U
#undef S2
#undef I2
#undef HS
#undef HS2
}

// LOGJ_ forms: the template is generated by the macro from the variable names
void logj_forms(Rng& r, std::vector<std::function<void()>>& out, std::vector<std::tuple<std::string, std::string, std::vector<std::pair<std::string, std::string>>>>& exp)
{
  (void)r;
  (void)out;
  (void)exp;
}
} // namespace

int main(int argc, char** argv)
{
  Args a{argc, argv};
  uint64_t const seed = a.u("seed", 1);
  uint64_t const rounds = a.u("rounds", 30);
  std::string const dir = a.s("dir", ".");
  Rng r{mix(seed, 0x19)};
  build();
  quill::BackendOptions bo;
  bo.check_backend_singleton_instance = false;
  bo.error_notifier = [](std::string const& s) { recorder().note(s); };
  auto rec = std::static_pointer_cast<RecSink>(quill::Frontend::create_or_get_sink<RecSink>("rec", 1u));
  quill::FileSinkConfig fc;
  fc.set_open_mode('w');
  // every other process: the JSON sink's write fails now and then (its before_write callback throws). The failed
  // statement has no line; every line after it is still exactly one complete object of its own statement
  static bool json_threw = false;
  static uint64_t json_calls = 0, json_throw_mod = 0;
  json_throw_mod = (seed % 2) ? 37 : 0;
  quill::FileEventNotifier fen;
  if (json_throw_mod)
    fen.before_write = [](std::string_view m)
    {
      if ((++json_calls % json_throw_mod) == 0)
      {
        json_threw = true;
        throw std::runtime_error{"scripted json write failure"};
      }
      return std::string{m};
    };
  auto js = quill::Frontend::create_or_get_sink<quill::JsonFileSink>(dir + "/out.json", fc, fen);
  g_lg = quill::Frontend::create_or_get_logger("jl", {rec, js}, quill::PatternFormatterOptions{"%(message)"}, quill::ClockSourceType::System);
  g_manual = quill::Backend::acquire_manual_backend_worker();
  g_manual->init(bo);
  g_expect.open(dir + "/expect.jsonl");
  // first-use order shuffled per seed
  std::vector<size_t> order(g_cat.size());
  for (size_t i = 0; i < order.size(); ++i) order[i] = i;
  for (size_t i = order.size() - 1; i > 0; --i) std::swap(order[i], order[r.below(i + 1)]);
  std::string sig;
  for (size_t i = 0; i < std::min<size_t>(order.size(), 6); ++i) sig += std::to_string(order[i]) + ",";
  g_stats.sig("first_use_orders", sig);
  for (uint64_t rd = 0; rd < rounds && !g_failed; ++rd)
  {
    for (size_t oi = 0; oi < order.size() && !g_failed; ++oi)
    {
      Tmpl const& t = g_cat[rd == 0 ? order[oi] : r.below(g_cat.size())];
      std::string text;
      std::vector<std::string> vals;
      recorder().clear();
      g_sep_in_value = false;
      g_expect_error = false;
      json_threw = false;
      t.log(r, text, vals);
      // the backend hands the message to the sinks without ONE trailing newline (the documented single-statement rule)
      if (!text.empty() && text.back() == '\n') text.pop_back();
      g_manual->poll();
      ++g_statements;
      auto evs = recorder().snapshot();
      SinkEv const* w = nullptr;
      size_t writes = 0;
      for (auto const& e : evs) if (e.kind == 'w') { ++writes; w = &e; }
      std::string key;
      J wit;
      wit.str("template", t.fmt).str("positional", t.positional);
      if (g_expect_error)
      {
        // written once with the explanatory text, or skipped; its pairs are not judged
        if (writes > 1 || (w && w->msg.rfind("[Could not format log statement", 0) != 0)) key = "unformattable-named-statement-not-replaced-by-error-text";
        g_stats.add("unformattable_named_statements");
      }
      else if (writes != 1 || !w) key = "statement-not-written-once";
      else if (w->msg != text) { key = "named-args-message-differs-from-positional-formatting"; wit.str("got", w->msg).str("want", text); }
      else if (!w->has_named || w->named.size() != t.names.size()) { key = "named-args-pair-count-differs"; wit.unum("got", w->has_named ? w->named.size() : 0).unum("want", t.names.size()); }
      else
      {
        for (size_t k = 0; k < t.names.size(); ++k)
          if (w->named[k].first != t.names[k] || w->named[k].second != vals[k])
          {
            key = w->named[k].first != t.names[k] ? "named-arg-key-differs" : "named-arg-value-not-formatted-with-its-spec";
            wit.unum("index", k).str("got_key", w->named[k].first).str("want_key", t.names[k]).str("got_value", w->named[k].second).str("want_value", vals[k]);
            break;
          }
      }
      if (!key.empty())
      {
        wit.boolean("placeholder_followed_by_escaped_brace", t.defect_class).boolean("value_contains_reserved_separator", g_sep_in_value);
        violation("C19", t.defect_class ? key + ":placeholder-followed-by-escaped-brace" : g_sep_in_value ? key + ":value-contains-reserved-separator" : key, wit);
        if (!t.defect_class && !g_sep_in_value) g_failed = true;
      }
      bool needs_escaping = false;
      for (auto const& v : vals) if (v.find_first_of("\"\\") != std::string::npos) needs_escaping = true;
      if (needs_escaping) g_stats.add("statements_with_values_that_need_json_escaping");
      if (g_sep_in_value) g_stats.add("statements_with_reserved_separator_in_a_value");
      // sidecar for the JSON judgement (done by the driver with Python's json module)
      if (g_expect_error && writes == 0) { g_stats.sig("templates", t.fmt); continue; } // skipped entirely: no JSON line either
      if (json_threw) { g_stats.add("json_sink_writes_that_failed"); g_stats.sig("templates", t.fmt); continue; } // no line for this one
      std::string tmpl = t.fmt;
      for (auto& c : tmpl) if (c == '\n') c = ' ';
      std::string line = "{\"message\":" + json_str(tmpl) + ",\"defect_class\":" + (t.defect_class ? "true" : "false") + ",\"needs_escaping\":" + ((needs_escaping || g_expect_error) ? "true" : "false") + ",\"pairs\":[";
      for (size_t k = 0; k < t.names.size(); ++k) line += std::string{k ? "," : ""} + "[" + json_str(t.names[k]) + "," + json_str(k < vals.size() ? vals[k] : "") + "]";
      line += "]}";
      g_expect << line << "\n";
      g_stats.sig("templates", t.fmt);
    }
  }
  g_expect.close();
  g_stats.add("named_statements", static_cast<long long>(g_statements));
  g_stats.add("named_templates", static_cast<long long>(g_cat.size()));
  g_stats.flush();
  sample(J{}.str("harness", "named_json").str("first_template_used", g_cat[order[0]].fmt).unum("rounds", rounds));
  end_ok();
  return 0;
}
